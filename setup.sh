#!/bin/bash
# Offline build of the verification harness from files on disk only.
set -eu
cd "$(dirname "$0")/harness"
export CARGO_NET_OFFLINE=true
cargo build --bin vcheck 2>&1 | tail -3
