//! Stand-in for the calendar-queue module of the main harness: only the parameter type is needed here
//! (the parameters are ignored by the BinaryHeap backend, they still shape the generated delays).
use proptest::prelude::*;
use serde::{Deserialize, Serialize};

#[derive(Clone, Debug, Serialize, Deserialize, PartialEq)]
pub struct QParams {
    pub n: usize,
    pub t_ns: u64,
}

pub const NS: [usize; 9] = [1, 2, 3, 5, 8, 16, 32, 64, 1028];
pub const TS: [u64; 8] = [1, 2, 7, 1_000, 1_000_000, 2_500_000, 1_000_000_000, 3_000_000_000];

pub fn params_strategy() -> impl Strategy<Value = QParams> {
    (0..NS.len(), 0..TS.len()).prop_map(|(a, b)| QParams { n: NS[a], t_ns: TS[b] })
}
