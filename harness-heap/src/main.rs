//! vcheck-heap <C02|C10|C11> <quick|thorough> [--replay F] [--worker i/n/cases]
//! Same generators, interpreters and oracles as ../harness, against the BinaryHeap event set.
#[path = "../../harness/src/engine.rs"]
pub mod engine;
#[path = "../../harness/src/prog.rs"]
pub mod prog;
#[path = "../../harness/src/c02.rs"]
pub mod c02;
#[path = "../../harness/src/c10.rs"]
pub mod c10;
#[path = "../../harness/src/c11.rs"]
pub mod c11;
pub mod cq;

use engine::{drive, seed_from_env, Args, Tier};
use std::path::PathBuf;

fn main() {
    let argv: Vec<String> = std::env::args().skip(1).collect();
    if argv.len() < 2 {
        eprintln!("usage: vcheck-heap <C02|C10|C11> <quick|thorough> [--replay FILE]");
        std::process::exit(2);
    }
    let tier = if argv[1] == "thorough" { Tier::Thorough } else { Tier::Quick };
    let mut args = Args {
        tier,
        seed: seed_from_env(),
        worker: None,
        replay: None,
    };
    let mut i = 2;
    while i < argv.len() {
        match argv[i].as_str() {
            "--replay" => {
                args.replay = Some(PathBuf::from(&argv[i + 1]));
                i += 2;
            }
            "--worker" => {
                let p: Vec<&str> = argv[i + 1].split('/').collect();
                args.worker = Some((p[0].parse().unwrap(), p[1].parse().unwrap(), p[2].parse().unwrap()));
                i += 2;
            }
            _ => std::process::exit(2),
        }
    }
    let code = match argv[0].as_str() {
        "C02" => drive::<c02::C02>(&args),
        "C10" => drive::<c10::C10>(&args),
        "C11" => drive::<c11::C11>(&args),
        _ => 2,
    };
    std::process::exit(code);
}
