#![no_main]
//! C18 (totality): arbitrary text as a network description; a panic located in des / des-net-utils is a violation.
use libfuzzer_sys::fuzz_target;
use vcore::fuzzdec;

fuzz_target!(|data: &[u8]| {
    fuzzdec::init();
    if let Ok(text) = std::str::from_utf8(data) {
        if let Some(f) = fuzzdec::run_c18_text(text) {
            fuzzdec::report_text("C18", text, &f);
            fuzzdec::fail("C18", &f);
        }
    }
});
