#![no_main]
//! C15: byte input -> history x payload type x page size, allocator invariants + drop counters (built with ASan).
use libfuzzer_sys::fuzz_target;
use vcore::fuzzdec;

fuzz_target!(|data: &[u8]| {
    fuzzdec::init();
    let case = fuzzdec::c15_case(data);
    if let Some(f) = fuzzdec::run_c15(&case) {
        fuzzdec::report("C15", &case, &f);
        fuzzdec::fail("C15", &f);
    }
});
