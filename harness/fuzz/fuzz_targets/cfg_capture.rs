#![no_main]
//! C17: byte input -> module paths + flat dotted-key configuration, exact key-set oracle.
use libfuzzer_sys::fuzz_target;
use vcore::fuzzdec;

fuzz_target!(|data: &[u8]| {
    fuzzdec::init();
    let case = fuzzdec::c17_case(data);
    if let Some(f) = fuzzdec::run_c17(&case) {
        fuzzdec::report("C17", &case, &f);
        fuzzdec::fail("C17", &f);
    }
});
