#![no_main]
//! Every property: the input bytes become the random stream of the property's own proptest strategy (pass-through RNG),
//! the generated case runs through the same interpreter and oracle as the proptest check. VERIF_FUZZ_PROP selects the property.
use libfuzzer_sys::fuzz_target;
use vcore::fuzzdec;

fuzz_target!(|data: &[u8]| {
    fuzzdec::init();
    fuzzdec::run_prop_bytes(data);
});
