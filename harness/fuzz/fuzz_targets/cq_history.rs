#![no_main]
//! C01 (+ queue-level C03): byte input -> add/cancel/fetch history -> the same interpreter and oracle as the proptest check.
use libfuzzer_sys::fuzz_target;
use vcore::fuzzdec;

fuzz_target!(|data: &[u8]| {
    fuzzdec::init();
    let case = fuzzdec::c01_case(data);
    if let Some(f) = fuzzdec::run_c01(&case) {
        fuzzdec::report("C01", &case, &f);
        fuzzdec::fail("C01", &f);
    }
});
