//! C03 – equal-timestamp events are dispatched in a deterministic scheduling order.

use crate::cq::{self, Op, QParams};
use crate::engine::*;
use crate::prog::{self, ExecOpts, Program};
use proptest::prelude::*;
use serde::{Deserialize, Serialize};
use std::time::Duration;

#[derive(Clone, Debug, Serialize, Deserialize)]
pub enum Case {
    /// queue level: the C01 history generator with the tie-order oracle switched on
    Queue { params: QParams, ops: Vec<Op> },
    /// runtime level: an event program run under several queue parameterisations and ballast sizes
    Prog {
        program: Program,
        /// (index into cq::NS, multiplier index for the bucket width)
        alts: Vec<(u8, u8)>,
        ballast: u8,
    },
    /// net level: handlers issue bursts of send_in / schedule_in calls (many for the same instant, not sorted by
    /// time); the arrival order at the receivers must be the order RefSim gives for that scheduling history
    Net { bursts: Vec<Burst> },
}

#[derive(Clone, Debug, Serialize, Deserialize)]
pub struct Burst {
    /// instant of the handler that issues the burst (microseconds)
    pub at_us: u16,
    /// (target: 0 = schedule_in to self, 1..=3 = send_in on gate out<k>; index into NET_DELAYS_US)
    pub ops: Vec<(u8, u8)>,
}

pub const NET_DELAYS_US: [u64; 8] = [0, 1, 2, 2, 5, 10, 10, 100];

struct NetSender {
    bursts: Vec<Burst>,
    next_id: u16,
}
impl des::prelude::Module for NetSender {
    fn at_sim_start(&mut self, _: usize) {
        use des::prelude::*;
        for (i, b) in self.bursts.iter().enumerate() {
            schedule_at(Message::default().kind(1).id(i as u16), crate::net::st(b.at_us as u128 * 1_000));
        }
    }
    fn handle_message(&mut self, msg: des::prelude::Message) {
        use des::prelude::*;
        if msg.header().kind == 1 {
            let burst = self.bursts[msg.header().id as usize].clone();
            for (target, d) in burst.ops {
                let id = self.next_id;
                self.next_id += 1;
                let d = Duration::from_micros(NET_DELAYS_US[d as usize % NET_DELAYS_US.len()]);
                let m = Message::default().kind(2).id(id);
                match target % 4 {
                    0 => schedule_in(m, d),
                    k => {
                        let gate = format!("out{k}");
                        if d.is_zero() {
                            send(m, gate.as_str());
                        } else {
                            send_in(m, gate.as_str(), d);
                        }
                    }
                }
            }
        } else {
            crate::net::log("arrive", msg.header().id as i64, 0);
        }
    }
}
struct NetReceiver;
impl des::prelude::Module for NetReceiver {
    fn handle_message(&mut self, msg: des::prelude::Message) {
        crate::net::log("arrive", msg.header().id as i64, 0);
    }
}

fn run_net(bursts: &[Burst]) -> Result<(bool, Vec<&'static str>), Failure> {
    use des::prelude::*;
    crate::net::log_clear();
    let mut sim = Sim::new(());
    sim.node("s", NetSender { bursts: bursts.to_vec(), next_id: 0 });
    for k in 1..=3 {
        sim.node(format!("r{k}"), NetReceiver);
        sim.gate("s", &format!("out{k}")).connect(sim.gate(format!("r{k}"), "in"), None);
    }
    let rt = Builder::seeded(2).quiet().max_itr(100_000).build(sim.freeze());
    let res = rt.run();
    let log = crate::net::log_take();
    let ok = res.is_ok();
    drop(res);
    crate::vensure!(ok, "run-returned-error", "run() returned an error");
    // model: triggers are scheduled at start in index order; every emission is one event at now + delay
    let mut sim = prog::RefSim::new();
    const TRIGGER: u32 = 1_000_000;
    for (i, b) in bursts.iter().enumerate() {
        sim.schedule(TRIGGER + i as u32, b.at_us as u128 * 1_000);
    }
    let mut next = 0u32;
    let mut want: Vec<(String, i64)> = Vec::new();
    let mut target_of: Vec<u8> = Vec::new();
    let mut max_burst = 0;
    let mut tie = false;
    let mut last: Option<u128> = None;
    while let Some((ev, now)) = sim.pop() {
        if ev >= TRIGGER {
            let b = &bursts[(ev - TRIGGER) as usize];
            max_burst = max_burst.max(b.ops.len());
            for (target, d) in &b.ops {
                sim.schedule(next, now + NET_DELAYS_US[*d as usize % NET_DELAYS_US.len()] as u128 * 1_000);
                target_of.push(*target % 4);
                next += 1;
            }
        } else {
            if last == Some(now) {
                tie = true;
            }
            last = Some(now);
            let t = target_of[ev as usize];
            want.push((if t == 0 { "s".to_string() } else { format!("r{t}") }, ev as i64));
        }
    }
    let got: Vec<(String, i64)> = log.iter().filter(|r| r.kind == "arrive").map(|r| (r.path.clone(), r.a)).collect();
    for (k, (g, w)) in got.iter().zip(want.iter()).enumerate() {
        crate::vensure!(
            g == w,
            "tie-order",
            "arrival #{k} is message {} at {}, the scheduling order demands message {} at {}; bursts {:?}",
            g.1,
            g.0,
            w.1,
            w.0,
            bursts
        );
    }
    crate::vensure!(got.len() == want.len(), "tie-order", "{} arrivals, expected {}", got.len(), want.len());
    let mut labels = vec!["net-level"];
    if max_burst > 20 {
        labels.push("burst>20-in-one-handler");
    }
    if tie {
        labels.push("tie-group");
    }
    Ok((tie && max_burst >= 2, labels))
}

pub struct C03;

const T_MUL: [(u64, u64); 5] = [(1, 1), (2, 1), (3, 1), (1, 2), (7, 1)];
const BALLAST: [usize; 3] = [0, 50, 500];

fn run_case(case: &Case) -> Result<(bool, Vec<&'static str>), Failure> {
    match case {
        Case::Queue { params, ops } => {
            let opt = cq::Options {
                tie_order: true,
                structure: false,
                memory: false,
                page_size: None,
                drop_at: None,
            };
            let fl = cq::interpret::<u64>(params, ops, &opt)?;
            let mut labels = vec!["queue-level"];
            if fl.tie_groups > 0 {
                labels.push("tie-group");
            }
            if fl.tie_zero_and_older {
                labels.push("tie-with-zero-delay-and-older-event");
            }
            if fl.zero_burst {
                labels.push("burst-of->=65-events-at-the-current-time");
            }
            Ok((fl.tie_groups > 0 && fl.tie_zero_and_older, labels))
        }
        Case::Net { bursts } => run_net(bursts),
        Case::Prog { program, alts, ballast } => {
            let m = prog::model(program, 0, &[], None);
            let base = prog::execute(program, &ExecOpts::default())?;
            prog::diff_traces("default parameterisation", "tie-order", &base.trace, &m.trace)?;
            let year = program.params.t_ns as u128 * program.params.n as u128;
            let mut labels = vec!["runtime-level"];
            let b = BALLAST[*ballast as usize % BALLAST.len()];
            for (k, (ni, ti)) in alts.iter().enumerate() {
                let (mul, div) = T_MUL[*ti as usize % T_MUL.len()];
                let alt = QParams {
                    n: cq::NS[*ni as usize % cq::NS.len()],
                    t_ns: (program.params.t_ns * mul / div).max(1),
                };
                let opts = ExecOpts {
                    params: Some(alt.clone()),
                    ballast: if k == 0 { b } else { 0 },
                    ..Default::default()
                };
                let r = prog::execute(program, &opts)?;
                let got = prog::strip_ballast(&r.trace);
                prog::diff_traces(
                    &format!("order under (n={}, t={}ns, ballast={}) vs the stated order", alt.n, alt.t_ns, opts.ballast),
                    "tie-order-depends-on-parameters",
                    &got,
                    &m.trace,
                )?;
            }
            if !alts.is_empty() {
                labels.push("alt-parameterisation");
            }
            if b > 0 && !alts.is_empty() {
                labels.push("ballast");
            }
            if m.tie_dispatches > 0 {
                labels.push("tie-group");
            }
            if m.tie_zero_and_older {
                labels.push("tie-with-zero-delay-and-older-event");
            }
            // a tie group that sits exactly on a year boundary of the default parameterisation
            let mut year_tie = false;
            for w in m.trace.windows(2) {
                if w[0].1 == w[1].1 && w[0].1 > 0 && w[0].1 % year == 0 {
                    year_tie = true;
                }
            }
            if year_tie {
                labels.push("tie-on-year-boundary");
            }
            Ok((m.tie_dispatches > 0 && (m.tie_zero_and_older || year_tie), labels))
        }
    }
}

impl Prop for C03 {
    const ID: &'static str = "C03";
    type Case = Case;

    fn rule() -> String {
        "three generators: (c) net level: module handlers issue bursts of up to 60 send_in / schedule_in calls with delays from {0,1,2,2,5,10,10,100} us \
         (unsorted, many ties) over direct gate connections, receivers log arrivals, the global arrival order must equal the RefSim order; (a) CQueue histories (C01 generator, incl. bursts of 65..104 adds at the current instant) checked against the stated tie rule (same-instant insertions FIFO first, then scheduling \
         order); (b) tie-biased event programs on a raw Runtime (bursts for one instant, zero-delay follow-ups while older events of the same instant \
         are pending, ties on year boundaries) executed under the default and up to 2 alternative (n,t) parameterisations and with 0/50/500 far-future \
         ballast events; oracle = RefSim order, identical in all executions. Non-trivial iff a dispatch faced a tie group >= 2 that contained both a \
         zero-delay insertion and an older event of that timestamp, or a tie group on a year boundary."
            .into()
    }
    fn assumptions() -> Vec<String> {
        vec![
            "claimed for the default feature set (cqueue backend) only, as the property states".into(),
            "alternative bucket widths stay within a factor 1/2..7 of the program's width so that calendar scans stay cheap".into(),
        ]
    }
    fn plan(tier: Tier) -> Plan {
        Plan {
            shards: tier.pick(4, 16),
            cases_per_shard: tier.pick(3_000, 20_000),
            watchdog: Duration::from_secs(tier.pick(300, 3600)),
        }
    }
    fn strategy(tier: Tier) -> BoxedStrategy<Case> {
        let max_ops = tier.pick(60, 300);
        let max_nodes = tier.pick(40, 120);
        prop_oneof![
            1 => (cq::params_strategy(), proptest::collection::vec(cq::op_strategy(), 0..max_ops))
                .prop_map(|(params, ops)| Case::Queue { params, ops }),
            2 => (
                prog::program_strategy(max_nodes, true, false),
                proptest::collection::vec((0u8..cq::NS.len() as u8, 0u8..T_MUL.len() as u8), 0..3),
                0u8..3
            )
                .prop_map(|(program, alts, ballast)| Case::Prog { program, alts, ballast }),
            1 => proptest::collection::vec(
                (0u16..40, proptest::collection::vec((0u8..4, 0u8..NET_DELAYS_US.len() as u8), 0..60))
                    .prop_map(|(at_us, ops)| Burst { at_us, ops }),
                1..4
            )
            .prop_map(|bursts| Case::Net { bursts }),
        ]
        .boxed()
    }
    fn run(case: &Case) -> Outcome {
        match run_case(case) {
            Ok((nt, labels)) => Outcome::ok(nt, labels),
            Err(f) => Outcome::failed(f),
        }
    }
}
