//! C03 – equal-timestamp events are dispatched in a deterministic scheduling order.

use crate::cq::{self, Op, QParams};
use crate::engine::*;
use crate::prog::{self, ExecOpts, Program};
use proptest::prelude::*;
use serde::{Deserialize, Serialize};
use std::time::Duration;

#[derive(Clone, Debug, Serialize, Deserialize)]
pub enum Case {
    /// queue level: the C01 history generator with the tie-order oracle switched on
    Queue { params: QParams, ops: Vec<Op> },
    /// runtime level: an event program run under several queue parameterisations and ballast sizes
    Prog {
        program: Program,
        /// (index into cq::NS, multiplier index for the bucket width)
        alts: Vec<(u8, u8)>,
        ballast: u8,
    },
}

pub struct C03;

const T_MUL: [(u64, u64); 5] = [(1, 1), (2, 1), (3, 1), (1, 2), (7, 1)];
const BALLAST: [usize; 3] = [0, 50, 500];

fn run_case(case: &Case) -> Result<(bool, Vec<&'static str>), Failure> {
    match case {
        Case::Queue { params, ops } => {
            let opt = cq::Options {
                tie_order: true,
                structure: false,
                memory: false,
                page_size: None,
                drop_at: None,
            };
            let fl = cq::interpret::<u64>(params, ops, &opt)?;
            let mut labels = vec!["queue-level"];
            if fl.tie_groups > 0 {
                labels.push("tie-group");
            }
            if fl.tie_zero_and_older {
                labels.push("tie-with-zero-delay-and-older-event");
            }
            Ok((fl.tie_groups > 0 && fl.tie_zero_and_older, labels))
        }
        Case::Prog { program, alts, ballast } => {
            let m = prog::model(program, 0, &[], None);
            let base = prog::execute(program, &ExecOpts::default())?;
            prog::diff_traces("default parameterisation", "tie-order", &base.trace, &m.trace)?;
            let year = program.params.t_ns as u128 * program.params.n as u128;
            let mut labels = vec!["runtime-level"];
            let b = BALLAST[*ballast as usize % BALLAST.len()];
            for (k, (ni, ti)) in alts.iter().enumerate() {
                let (mul, div) = T_MUL[*ti as usize % T_MUL.len()];
                let alt = QParams {
                    n: cq::NS[*ni as usize % cq::NS.len()],
                    t_ns: (program.params.t_ns * mul / div).max(1),
                };
                let opts = ExecOpts {
                    params: Some(alt.clone()),
                    ballast: if k == 0 { b } else { 0 },
                    ..Default::default()
                };
                let r = prog::execute(program, &opts)?;
                let got = prog::strip_ballast(&r.trace);
                prog::diff_traces(
                    &format!("order under (n={}, t={}ns, ballast={}) vs the stated order", alt.n, alt.t_ns, opts.ballast),
                    "tie-order-depends-on-parameters",
                    &got,
                    &m.trace,
                )?;
            }
            if !alts.is_empty() {
                labels.push("alt-parameterisation");
            }
            if b > 0 && !alts.is_empty() {
                labels.push("ballast");
            }
            if m.tie_dispatches > 0 {
                labels.push("tie-group");
            }
            if m.tie_zero_and_older {
                labels.push("tie-with-zero-delay-and-older-event");
            }
            // a tie group that sits exactly on a year boundary of the default parameterisation
            let mut year_tie = false;
            for w in m.trace.windows(2) {
                if w[0].1 == w[1].1 && w[0].1 > 0 && w[0].1 % year == 0 {
                    year_tie = true;
                }
            }
            if year_tie {
                labels.push("tie-on-year-boundary");
            }
            Ok((m.tie_dispatches > 0 && (m.tie_zero_and_older || year_tie), labels))
        }
    }
}

impl Prop for C03 {
    const ID: &'static str = "C03";
    type Case = Case;

    fn rule() -> String {
        "two generators: (a) CQueue histories (C01 generator) checked against the stated tie rule (same-instant insertions FIFO first, then scheduling \
         order); (b) tie-biased event programs on a raw Runtime (bursts for one instant, zero-delay follow-ups while older events of the same instant \
         are pending, ties on year boundaries) executed under the default and up to 2 alternative (n,t) parameterisations and with 0/50/500 far-future \
         ballast events; oracle = RefSim order, identical in all executions. Non-trivial iff a dispatch faced a tie group >= 2 that contained both a \
         zero-delay insertion and an older event of that timestamp, or a tie group on a year boundary."
            .into()
    }
    fn assumptions() -> Vec<String> {
        vec![
            "claimed for the default feature set (cqueue backend) only, as the property states".into(),
            "alternative bucket widths stay within a factor 1/2..7 of the program's width so that calendar scans stay cheap".into(),
        ]
    }
    fn plan(tier: Tier) -> Plan {
        Plan {
            shards: tier.pick(4, 16),
            cases_per_shard: tier.pick(3_000, 20_000),
            watchdog: Duration::from_secs(tier.pick(300, 3600)),
        }
    }
    fn strategy(tier: Tier) -> BoxedStrategy<Case> {
        let max_ops = tier.pick(60, 300);
        let max_nodes = tier.pick(40, 120);
        prop_oneof![
            1 => (cq::params_strategy(), proptest::collection::vec(cq::op_strategy(), 0..max_ops))
                .prop_map(|(params, ops)| Case::Queue { params, ops }),
            2 => (
                prog::program_strategy(max_nodes, true, false),
                proptest::collection::vec((0u8..cq::NS.len() as u8, 0u8..T_MUL.len() as u8), 0..3),
                0u8..3
            )
                .prop_map(|(program, alts, ballast)| Case::Prog { program, alts, ballast }),
        ]
        .boxed()
    }
    fn run(case: &Case) -> Outcome {
        match run_case(case) {
            Ok((nt, labels)) => Outcome::ok(nt, labels),
            Err(f) => Outcome::failed(f),
        }
    }
}
