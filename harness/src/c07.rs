//! C07 – channels account for every message with the specified delay, busy and drop rules.

use crate::engine::*;
use crate::net::{self, du, st};
use crate::prog::RefSim;
use crate::{vensure, vfail};
use des::net::channel::{ChannelDropBehaviour, ChannelMetrics, ChannelProbe};
use des::prelude::*;
use proptest::prelude::*;
use serde::{Deserialize, Serialize};
use std::collections::{BTreeMap, VecDeque};
use std::time::Duration as StdDuration;

pub const BITRATES: [usize; 9] = [0, 1, 1_000, 10_000, 1_000_000, 1_000_000_000, 2_000_000_000_000, usize::MAX / 16, 8];
pub const LATENCIES: [u64; 5] = [0, 1, 1_000_000, 50_000_000, 3_000_000_000];
pub const JITTERS: [u64; 3] = [0, 1_000, 10_000_000];
pub const SIZES: [u16; 7] = [0, 1, 436, 1000, 36, 64, 1500];

#[derive(Clone, Debug, Serialize, Deserialize, PartialEq)]
pub enum Policy {
    Drop,
    QueueUnbounded,
    /// byte limit = given value
    QueueAbs(u32),
    /// byte limit = (sum of the lengths of the first `k` messages of the case) + delta
    QueueFit(u8, i8),
}

#[derive(Clone, Debug, Serialize, Deserialize, PartialEq)]
pub enum Gap {
    Zero,
    Ns(u32),
    /// tau = transmission time of the first message of the previous burst: tau*num/4 + delta ns
    Tau(u8, i8),
}

#[derive(Clone, Debug, Serialize, Deserialize)]
pub struct Offer {
    pub gap: Gap,
    /// schedule the next timer before (true) or after (false) sending the burst
    pub timer_first: bool,
    /// body sizes (index into SIZES) of the burst
    pub burst: Vec<u8>,
}

#[derive(Clone, Debug, Serialize, Deserialize)]
pub struct Case {
    pub bitrate: u8,
    pub latency: u8,
    pub jitter: u8,
    pub policy: Policy,
    pub offers: Vec<Offer>,
    /// traffic the receiving module offers into the same connection the other way round (ids from 1000). The two
    /// directions of a connection have separate channel instances: busy state, queue and drops are per direction.
    #[serde(default)]
    pub reverse: Vec<Offer>,
    /// probe for the known finding: assert the delivery order even in the excluded region
    #[serde(default)]
    pub probe_known: bool,
    /// additionally run the fresh-link scenario: (bitrate 1e3 | 1e4 | 1e6, latency index, queueing policy, messages
    /// offered to the new link, body size index)
    #[serde(default)]
    pub fresh_link: Option<(u8, u8, bool, u8, u8)>,
}

pub struct C07;

/// A module whose handler occupies its existing link and then, in the same event, creates a second link from the
/// channel handle of the first (`connect(.., Some(gate.channel()))`) and offers a burst to it.
struct LinkMaker {
    body: u16,
    burst: u8,
}

impl Module for LinkMaker {
    fn at_sim_start(&mut self, _: usize) {
        schedule_in(Message::default().kind(1), Duration::from_secs(1));
    }
    fn handle_message(&mut self, msg: Message) {
        if msg.header().kind != 1 {
            net::log("recv", msg.header().id as i64, 0);
            return;
        }
        send(Message::default().kind(2).id(1).with_content(vec![7u8; self.body as usize]), "out");
        let out = current().gate("out", 0).expect("gate");
        let ch = out.channel().expect("channel");
        net::log("template-busy", ch.is_busy() as i64, 0);
        let out2 = current().gate("out2", 0).expect("gate");
        let in2 = current().gate("in2", 0).expect("gate");
        out2.connect(in2, Some(ch));
        for j in 0..self.burst as u16 {
            send(Message::default().kind(2).id(2 + j).with_content(vec![7u8; self.body as usize]), "out2");
        }
    }
}

/// "both direction will have unique instances of the channel, with identical configuration" (Gate::connect): a link
/// created at run time from the handle of a link that is transmitting has the same metrics and has never transmitted
/// anything, so it is idle, and the discipline of the property applies to it from its first message on.
fn fresh_link_scenario(spec: (u8, u8, bool, u8, u8)) -> Result<(), Failure> {
    let bitrate = [1_000usize, 10_000, 1_000_000][spec.0 as usize % 3];
    let latency = LATENCIES[spec.1 as usize % LATENCIES.len()] as u128;
    let queue = spec.2;
    let burst = spec.3 % 4 + 1;
    let body = SIZES[spec.4 as usize % SIZES.len()];
    net::log_clear();
    let mut sim = Sim::new(());
    sim.node("fl", LinkMaker { body, burst });
    let (g_out, g_in) = (sim.gate("fl", "out"), sim.gate("fl", "in"));
    let _ = sim.gate("fl", "in2");
    let _ = sim.gate("fl", "out2");
    let behaviour = if queue { ChannelDropBehaviour::Queue(None) } else { ChannelDropBehaviour::Drop };
    g_out.connect(g_in, Some(Channel::new(ChannelMetrics::new(bitrate, du(latency), Duration::ZERO, behaviour))));
    let rt = Builder::seeded(11).quiet().max_itr(1_000).cqueue_options(1028, Duration::from_millis(50)).build(sim.freeze());
    let res = rt.run();
    let log = net::log_take();
    let ok = res.is_ok();
    drop(res);
    vensure!(ok, "run-returned-error", "fresh-link scenario: run() returned an error");
    let tau = tau_ns(64 + body as usize, bitrate);
    let t0 = 1_000_000_000u128;
    let mut want: Vec<(i64, u128)> = vec![(1, t0 + tau + latency)];
    for j in 0..burst as u128 {
        if queue || j == 0 {
            want.push((2 + j as i64, t0 + (j + 1) * tau + latency));
        }
    }
    want.sort_by_key(|(id, t)| (*t, *id));
    let mut got: Vec<(i64, u128)> = log.iter().filter(|r| r.kind == "recv").map(|r| (r.a, r.now)).collect();
    got.sort_by_key(|(id, t)| (*t, *id));
    vensure!(
        got == want,
        "delivery-of-a-link-created-at-run-time",
        "a link created inside a handler from the channel handle of a link that is transmitting ({bitrate} bit/s, latency {latency} ns, {}, {} byte bodies, burst of {burst}) \
         delivered (id, ns) {:?}; a channel that has never transmitted is idle, so the expected deliveries are {:?}",
        if queue { "Queue(None)" } else { "Drop" },
        body,
        got,
        want
    );
    Ok(())
}

// ------------------------------------------------------------------------------------------
// real modules

struct Sender {
    /// (absolute time, timer_first, [(id, body bytes)])
    offers: Vec<(u128, bool, Vec<(u16, u16)>)>,
    /// the gate this module sends on ("out" of the sender, "in" of the receiver for the reverse direction)
    gate: &'static str,
}

impl Sender {
    fn schedule(&self, i: usize) {
        if let Some(o) = self.offers.get(i) {
            schedule_at(Message::default().kind(1).id(i as u16), st(o.0));
        }
    }
}

impl Module for Sender {
    fn at_sim_start(&mut self, _: usize) {
        self.schedule(0);
    }
    fn handle_message(&mut self, msg: Message) {
        if msg.header().kind != 1 {
            let ok = msg.try_content::<Vec<u8>>().map_or(-1, |v| v.len() as i64);
            net::log("recv", msg.header().id as i64, ok);
            return;
        }
        let i = msg.header().id as usize;
        let (_, timer_first, burst) = self.offers[i].clone();
        if timer_first {
            self.schedule(i + 1);
        }
        let gate = current().gate(self.gate, 0).expect("gate");
        let ch = gate.channel().expect("channel");
        for (id, body) in burst {
            send(Message::default().kind(2).id(id).with_content(vec![7u8; body as usize]), gate.clone());
            net::log("offered", id as i64, ch.is_busy() as i64);
            net::log("finish", id as i64, ch.transmission_finish_time().as_nanos() as i64);
        }
        if !timer_first {
            self.schedule(i + 1);
        }
    }
}


struct Probe;
impl ChannelProbe for Probe {
    fn on_message_transmit(&mut self, _: &ChannelMetrics, msg: &Message) {
        net::log_as("<probe>", "start", msg.header().id as i64, msg.length() as i64);
    }
}

// ------------------------------------------------------------------------------------------
// model

fn tau_ns(len: usize, bitrate: usize) -> u128 {
    if bitrate == 0 {
        0
    } else {
        std::time::Duration::from_secs_f64((len * 8) as f64 / bitrate as f64).as_nanos()
    }
}

#[derive(Default, Debug)]
struct ModelOut {
    /// id -> transmission start
    start: BTreeMap<u16, u128>,
    start_order: Vec<u16>,
    dropped: Vec<u16>,
    /// (id, busy flag seen by the sender right after offering, finish time or 0)
    after_offer: Vec<(u16, bool, u128)>,
    busy_offer: bool,
    busy_periods_draining: u32,
    limit_boundary: bool,
    equal_gap_tie: bool,
    zero_behind_nonzero: bool,
    /// known finding: with zero latency and jitter a queued message whose transmission time rounds to 0 ns leaves the
    /// channel in the very instant its predecessor arrives and is delivered first
    overtake_shape: bool,
}

struct Resolved {
    bitrate: usize,
    latency: u128,
    jitter: u128,
    limit: Option<Option<usize>>, // None: Drop; Some(None): unbounded; Some(Some(l))
    offers: Vec<(u128, bool, Vec<(u16, u16)>)>,
}

fn resolve(case: &Case) -> Resolved {
    resolve_dir(case, &case.offers, 0)
}

fn resolve_dir(case: &Case, offers_spec: &[Offer], id_base: u16) -> Resolved {
    let bitrate = BITRATES[case.bitrate as usize % BITRATES.len()];
    let latency = LATENCIES[case.latency as usize % LATENCIES.len()] as u128;
    let jitter = JITTERS[case.jitter as usize % JITTERS.len()] as u128;
    let mut id = id_base;
    let mut offers = Vec::new();
    let mut t: u128 = 0;
    let mut prev_tau: u128 = 0;
    let mut all_lens: Vec<usize> = Vec::new();
    for o in offers_spec {
        let gap = match o.gap {
            Gap::Zero => 0,
            Gap::Ns(k) => k as u128,
            Gap::Tau(num, d) => ((prev_tau * num as u128 / 4) as i128 + d as i128).max(0) as u128,
        };
        // keep the calendar scan cheap: gaps above ~5000 s are clipped
        t += gap.min(5_000_000_000_000);
        let burst: Vec<(u16, u16)> = o
            .burst
            .iter()
            .map(|s| {
                let b = SIZES[*s as usize % SIZES.len()];
                id += 1;
                all_lens.push(64 + b as usize);
                (id - 1, b)
            })
            .collect();
        if let Some((_, b)) = burst.first() {
            prev_tau = tau_ns(64 + *b as usize, bitrate).min(5_000_000_000_000);
        }
        offers.push((t, o.timer_first, burst));
    }
    let limit = match &case.policy {
        Policy::Drop => None,
        Policy::QueueUnbounded => Some(None),
        Policy::QueueAbs(l) => Some(Some(*l as usize)),
        Policy::QueueFit(k, d) => {
            // queue candidates are the messages after the first one
            let sum: usize = all_lens.iter().skip(1).take(*k as usize % 4 + 1).sum();
            Some(Some((sum as i64 + *d as i64).max(0) as usize))
        }
    };
    Resolved {
        bitrate,
        latency,
        jitter,
        limit,
        offers,
    }
}

fn model(r: &Resolved) -> ModelOut {
    const UNBUSY: u32 = 1_000_000;
    let mut out = ModelOut::default();
    let mut sim = RefSim::new();
    let mut busy = false;
    let mut finish: u128 = 0;
    let mut queue: VecDeque<(u16, usize)> = VecDeque::new();
    let mut acc = 0usize;
    let mut unbusy_seq = 0u32;
    let mut drained_in_period = false;
    if !r.offers.is_empty() {
        sim.schedule(0, r.offers[0].0);
    }
    let start = |id: u16, len: usize, now: u128, sim: &mut RefSim, busy: &mut bool, finish: &mut u128, out: &mut ModelOut, seq: &mut u32| {
        out.start.insert(id, now);
        out.start_order.push(id);
        let tau = tau_ns(len, r.bitrate);
        if tau != 0 {
            *busy = true;
            *finish = now + tau;
            sim.schedule(UNBUSY + *seq, now + tau);
            *seq += 1;
        }
    };
    while let Some((ev, now)) = sim.pop() {
        if ev >= UNBUSY {
            busy = false;
            finish = 0;
            if !queue.is_empty() {
                if drained_in_period {
                    out.busy_periods_draining += 1;
                }
                drained_in_period = true;
            }
            let mut first = true;
            while !busy {
                let Some((id, len)) = queue.pop_front() else { break };
                acc -= len;
                if !first {
                    out.zero_behind_nonzero = true;
                }
                first = false;
                if tau_ns(len, r.bitrate) == 0 && r.latency == 0 && r.jitter == 0 {
                    out.overtake_shape = true;
                }
                start(id, len, now, &mut sim, &mut busy, &mut finish, &mut out, &mut unbusy_seq);
            }
            if queue.is_empty() {
                drained_in_period = false;
            }
            continue;
        }
        let i = ev as usize;
        let (_, timer_first, burst) = &r.offers[i];
        if *timer_first {
            if let Some(n) = r.offers.get(i + 1) {
                sim.schedule(ev + 1, n.0);
            }
        }
        if busy && finish == now {
            out.equal_gap_tie = true;
        }
        for (id, body) in burst {
            let len = 64 + *body as usize;
            if !busy {
                start(*id, len, now, &mut sim, &mut busy, &mut finish, &mut out, &mut unbusy_seq);
            } else {
                out.busy_offer = true;
                match r.limit {
                    None => out.dropped.push(*id),
                    Some(limit) => {
                        let l = limit.unwrap_or(usize::MAX);
                        if acc.saturating_add(len) > l {
                            out.dropped.push(*id);
                            if acc + len == l + 1 {
                                out.limit_boundary = true;
                            }
                        } else {
                            if acc + len == l {
                                out.limit_boundary = true;
                            }
                            acc += len;
                            queue.push_back((*id, len));
                        }
                    }
                }
            }
            out.after_offer.push((*id, busy, if busy { finish } else { 0 }));
        }
        if !*timer_first {
            if let Some(n) = r.offers.get(i + 1) {
                sim.schedule(ev + 1, n.0);
            }
        }
    }
    // anything still queued when no event is left would be stuck; the model never leaves messages queued
    debug_assert!(queue.is_empty());
    out
}

pub fn run_case(case: &Case) -> Result<(bool, Vec<&'static str>, bool), Failure> {
    if let Some(spec) = case.fresh_link {
        fresh_link_scenario(spec)?;
    }
    let r = resolve(case);
    let m = model(&r);
    // the other direction: same metrics (one ChannelMetrics value), its own channel state, hence its own model run
    let mut rr = resolve_dir(case, &case.reverse, 1000);
    rr.limit = r.limit;
    let mr = model(&rr);
    net::log_clear();
    let mut sim = Sim::new(());
    sim.node("s", Sender { offers: r.offers.clone(), gate: "out" });
    sim.node("r", Sender { offers: rr.offers.clone(), gate: "in" });
    let out = sim.gate("s", "out");
    let inp = sim.gate("r", "in");
    let behaviour = match r.limit {
        None => ChannelDropBehaviour::Drop,
        Some(l) => ChannelDropBehaviour::Queue(l),
    };
    let metrics = ChannelMetrics::new(r.bitrate, du(r.latency), du(r.jitter), behaviour);
    out.clone().connect(inp.clone(), Some(Channel::new(metrics)));
    out.channel().expect("channel on first hop").attach_probe(Probe);
    inp.channel().expect("channel of the reverse direction").attach_probe(Probe);
    drop(out);
    drop(inp);
    // slow links have transmission times of hours: use wide calendar buckets there (scan cost only)
    let width = if r.bitrate != 0 && r.bitrate < 100_000 { Duration::from_secs(5) } else { Duration::from_micros(2500) };
    let rt = Builder::seeded(11).quiet().cqueue_options(1028, width).build(sim.freeze());
    let res = rt.run();
    let log = net::log_take();
    let ok = res.is_ok();
    let end = res.as_ref().map(|x| x.1.as_nanos()).unwrap_or(0);
    drop(res);
    vensure!(ok, "run-returned-error", "run() returned an error");
    // each direction is judged on its own part of the log
    let part = |sender: &str, fwd: bool| -> Vec<net::Rec> {
        log.iter()
            .filter(|x| match x.kind.as_str() {
                "start" | "recv" => (x.a < 1000) == fwd,
                _ => x.path == sender,
            })
            .cloned()
            .collect()
    };
    let (nt_f, mut labels, ex_f) = check_direction(case, &r, &m, &part("s", true), "r", end, "")?;
    let (nt_r, labels_r, ex_r) = if case.reverse.is_empty() {
        (false, Vec::new(), false)
    } else {
        check_direction(case, &rr, &mr, &part("r", false), "s", end, " [reverse direction]")?
    };
    for l in labels_r {
        if !labels.contains(&l) {
            labels.push(l);
        }
    }
    if !case.reverse.is_empty() {
        labels.push("traffic-in-both-directions");
        // busy periods of the two directions overlap in time?
        let busy = |r: &Resolved, m: &ModelOut| -> Vec<(u128, u128)> {
            m.start
                .iter()
                .map(|(id, s)| {
                    let b = r.offers.iter().flat_map(|o| o.2.iter()).find(|x| x.0 == *id).map(|x| x.1).unwrap_or(0);
                    (*s, *s + tau_ns(64 + b as usize, r.bitrate))
                })
                .collect()
        };
        let (bf, br) = (busy(&r, &m), busy(&rr, &mr));
        if bf.iter().any(|a| br.iter().any(|b| a.0 < b.1 && b.0 < a.1)) {
            labels.push("both-directions-busy-at-once");
        }
    }
    if case.fresh_link.is_some() {
        labels.push("link-created-at-run-time-from-a-busy-channel's-handle");
    }
    Ok((nt_f || nt_r, labels, ex_f || ex_r))
}

/// The checks of one direction against its own model run.
fn check_direction(
    case: &Case,
    r: &Resolved,
    m: &ModelOut,
    log: &[net::Rec],
    receiver: &str,
    end: u128,
    which: &str,
) -> Result<(bool, Vec<&'static str>, bool), Failure> {
    let desc = format!(
        "bitrate={} latency={}ns jitter={}ns policy={:?} offers={:?}{which}",
        r.bitrate, r.latency, r.jitter, r.limit, r.offers
    );
    // transmission starts
    let starts: Vec<(u16, u128, i64)> = log.iter().filter(|x| x.kind == "start").map(|x| (x.a as u16, x.now, x.b)).collect();
    let mut seen_start: BTreeMap<u16, u128> = BTreeMap::new();
    for (id, now, len) in &starts {
        vensure!(seen_start.insert(*id, *now).is_none(), "transmitted-twice", "message {id} started transmission twice\n{desc}");
        let body = r.offers.iter().flat_map(|o| o.2.iter()).find(|x| x.0 == *id).map(|x| x.1).unwrap_or(0);
        vensure!(*len == 64 + body as i64, "length-charged", "channel charged {len} bytes for message {id} with a {body} byte body\n{desc}");
    }
    // deliveries
    let mut recv: BTreeMap<u16, u128> = BTreeMap::new();
    let mut recv_order: Vec<u16> = Vec::new();
    for x in log.iter().filter(|x| x.kind == "recv") {
        let id = x.a as u16;
        vensure!(recv.insert(id, x.now).is_none(), "delivered-twice", "message {id} was delivered twice\n{desc}");
        recv_order.push(id);
        vensure!(x.path == receiver, "delivered-to-wrong-module", "message {id} delivered to {}\n{desc}", x.path);
    }
    for id in &m.dropped {
        vensure!(!recv.contains_key(id), "dropped-message-delivered", "message {id} must be dropped (busy channel) but was delivered\n{desc}");
    }
    for (id, s) in &m.start {
        let tau = tau_ns(64 + r.offers.iter().flat_map(|o| o.2.iter()).find(|x| x.0 == *id).unwrap().1 as usize, r.bitrate);
        let Some(got) = recv.get(id) else {
            if seen_start.contains_key(id) {
                vfail!("message-lost", "message {id} started transmission at {} ns but was never delivered\n{desc}", seen_start[id]);
            }
            vfail!(
                "message-stuck-in-queue",
                "message {id} was accepted by the channel (model: transmission starts at {s} ns) but never left it; the run ended at {end} ns\n{desc}"
            );
        };
        let real_start = seen_start.get(id).copied();
        vensure!(
            real_start == Some(*s),
            "transmission-start",
            "message {id} started transmission at {real_start:?} ns, the channel rules give {s} ns\n{desc}"
        );
        let lo = s + tau + r.latency;
        if r.jitter == 0 {
            vensure!(*got == lo, "delivery-time", "message {id} delivered at {got} ns, expected start {s} + tau {tau} + latency {} = {lo}\n{desc}", r.latency);
        } else {
            vensure!(
                *got >= lo && *got < lo + r.jitter,
                "delivery-time",
                "message {id} delivered at {got} ns, outside [{lo}, {}) (jitter {})\n{desc}",
                lo + r.jitter,
                r.jitter
            );
        }
        // stated tolerance of the transmission time: within 1 ns of the exact rational len*8/bitrate
        if r.bitrate != 0 {
            let len = 64 + r.offers.iter().flat_map(|o| o.2.iter()).find(|x| x.0 == *id).unwrap().1 as u128;
            let exact_floor = len * 8 * 1_000_000_000 / r.bitrate as u128;
            vensure!(
                tau + 1 >= exact_floor && tau <= exact_floor + 2,
                "transmission-time-formula",
                "tau {tau} ns for {len} bytes at {} bit/s deviates from the exact value {exact_floor}",
                r.bitrate
            );
        }
    }
    for id in recv.keys() {
        vensure!(m.start.contains_key(id), "unexpected-delivery", "message {id} was delivered but the model never transmits it\n{desc}");
    }
    let excluded = m.overtake_shape && !case.probe_known;
    if r.jitter == 0 && !excluded {
        vensure!(
            recv_order == m.start_order,
            if m.overtake_shape { "zero-time-transmission-overtakes-at-zero-latency" } else { "delivery-order" },
            "deliveries arrived in order {:?}, offer/transmission order is {:?}\n{desc}",
            recv_order,
            m.start_order
        );
    }
    // busy flag and finish time as seen by the sender right after each offer
    let seen: Vec<(u16, bool)> = log.iter().filter(|x| x.kind == "offered").map(|x| (x.a as u16, x.b == 1)).collect();
    let fin: Vec<(u16, u128)> = log.iter().filter(|x| x.kind == "finish").map(|x| (x.a as u16, x.b as u128)).collect();
    for (k, (id, busy, finish)) in m.after_offer.iter().enumerate() {
        let Some((gid, gbusy)) = seen.get(k) else {
            vfail!("offer-missing", "offer of message {id} never happened\n{desc}")
        };
        vensure!(
            gid == id && gbusy == busy,
            "busy-flag",
            "after offering message {id}: is_busy() = {gbusy}, the channel rules give {busy}\n{desc}"
        );
        if *busy {
            vensure!(fin[k].1 == *finish, "finish-time", "after offering message {id}: transmission_finish_time() = {} ns, expected {finish}\n{desc}", fin[k].1);
        }
    }
    let mut labels = Vec::new();
    if m.busy_offer {
        labels.push("offer-on-busy-channel");
    }
    if m.busy_periods_draining >= 1 {
        labels.push("queue-drains-over>=2-busy-periods");
    }
    if m.limit_boundary {
        labels.push("byte-limit-boundary");
    }
    if m.equal_gap_tie {
        labels.push("offer-exactly-when-transmission-ends");
    }
    if m.zero_behind_nonzero {
        labels.push("zero-length-transmission-behind-queued");
    }
    if !m.dropped.is_empty() {
        labels.push("drop");
    }
    if r.jitter > 0 {
        labels.push("jitter");
    }
    let nt = m.busy_offer && (m.busy_periods_draining >= 1 || m.limit_boundary || m.equal_gap_tie || m.zero_behind_nonzero);
    if excluded {
        labels.push("known-finding-shape:order-not-asserted");
    }
    Ok((nt, labels, excluded))
}

impl Prop for C07 {
    const ID: &'static str = "C07";
    type Case = Case;

    fn rule() -> String {
        "proptest: channel metrics (bitrate in {0,1,8,1e3,1e4,1e6,1e9,2e12,usize::MAX/16}, latency in {0,1ns,1ms,50ms,3s}, jitter in {0,1us,10ms}, \
         policy Drop | Queue(None) | Queue(abs) | Queue(fit of the first k messages -1/0/+1)) x traffic: a sender with chained self-timers, each \
         offering a burst of 1..4 (sometimes 21..32) messages (body sizes 0..1500) with gaps 0 | ns | tau*q/4 +-1ns of the previous transmission time, the next \
         timer scheduled before or after the burst (both tie orders); in 40% of the cases the receiving module offers such traffic into the \
         same connection the other way round (separate channel instance per direction, each direction judged by its own model run); in 15% of the cases a mini scenario in which a handler occupies its link, creates a second link from that link's channel handle in the same event and offers a burst of 1..4 to it (the new link has never transmitted: deliveries at k*tau+latency under Queue, only the first under Drop). Oracle: an independent channel model on RefSim (idle -> start now, busy for \
         tau, Drop / byte-bounded FIFO queue, head starts the instant the channel is idle, zero-length transmissions chain): transmission starts \
         (probe), exactly-once delivery at start+tau+latency (+[0,jitter)), dropped never delivered, nothing stuck at the end, offer order preserved \
         with zero jitter, is_busy()/transmission_finish_time() after every offer, tau within 1 ns of the exact rational. Non-trivial iff an offer \
         hits a busy channel AND (the queue drains over >= 2 busy periods OR a byte-limit boundary is hit OR an offer coincides with the end of \
         a transmission OR a zero-length transmission follows a queued one)."
            .into()
    }
    fn assumptions() -> Vec<String> {
        vec![
            "ties between a timer and the end of a transmission are resolved by the order C03 states (RefSim)".into(),
            "transmission time is Duration::from_secs_f64(len*8/bitrate), required to be within 1 ns of the exact rational".into(),
        ]
    }
    fn plan(tier: Tier) -> Plan {
        Plan {
            shards: tier.pick(4, 16),
            cases_per_shard: tier.pick(2_500, 40_000),
            watchdog: StdDuration::from_secs(tier.pick(300, 3600)),
        }
    }
    fn strategy(tier: Tier) -> BoxedStrategy<Case> {
        let max_offers = tier.pick(8, 20);
        let policy = prop_oneof![
            2 => Just(Policy::Drop),
            3 => Just(Policy::QueueUnbounded),
            1 => prop_oneof![Just(0u32), Just(64), Just(1064), 0u32..5000].prop_map(Policy::QueueAbs),
            3 => (0u8..4, -1i8..=1).prop_map(|(k, d)| Policy::QueueFit(k, d)),
        ];
        let gap = prop_oneof![
            3 => Just(Gap::Zero),
            2 => prop_oneof![Just(1u32), 1u32..100_000].prop_map(Gap::Ns),
            6 => (prop_oneof![Just(4u8), Just(2), Just(1), Just(8), Just(12), 0u8..16], -1i8..=1).prop_map(|(n, d)| Gap::Tau(n, d)),
        ];
        let burst = prop_oneof![8 => proptest::collection::vec(0u8..SIZES.len() as u8, 1..=4), 1 => proptest::collection::vec(0u8..SIZES.len() as u8, 21..=32)];
        let offer = (gap, any::<bool>(), burst)
            .prop_map(|(gap, timer_first, burst)| Offer { gap, timer_first, burst });
        (
            0u8..BITRATES.len() as u8,
            0u8..LATENCIES.len() as u8,
            prop_oneof![3 => Just(0u8), 1 => 1u8..JITTERS.len() as u8],
            policy,
            proptest::collection::vec(offer.clone(), 1..max_offers),
            prop_oneof![3 => Just(Vec::new()), 2 => proptest::collection::vec(offer, 1..max_offers)],
            proptest::option::weighted(0.15, (0u8..3, 0u8..LATENCIES.len() as u8, any::<bool>(), 0u8..4, 0u8..SIZES.len() as u8)),
        )
            .prop_map(|(bitrate, latency, jitter, policy, offers, reverse, fresh_link)| Case {
                bitrate,
                latency,
                jitter,
                policy,
                offers,
                reverse,
                probe_known: false,
                fresh_link,
            })
            .boxed()
    }
    fn run(case: &Case) -> Outcome {
        match run_case(case) {
            Ok((nt, labels, excluded)) => {
                let mut o = Outcome::ok(nt, labels);
                o.excluded = excluded;
                o
            }
            Err(f) => Outcome::failed(f),
        }
    }
    fn builtin_cases() -> Vec<(String, Case)> {
        // probe for the known finding: 2 Tbit/s, zero latency, unbounded queue, a 500 byte message (2 ns) followed by a
        // 64 byte message (0.256 ns -> 0 ns) offered in the same handler: the second one is delivered first
        vec![(
            "known-zero-time-transmission-overtakes".into(),
            Case {
                bitrate: 6,
                latency: 0,
                jitter: 0,
                policy: Policy::QueueUnbounded,
                offers: vec![Offer { gap: Gap::Zero, timer_first: false, burst: vec![2, 0] }],
                reverse: Vec::new(),
                probe_known: true,
                fresh_link: None,
            },
        )]
    }
}
