//! C15 – calendar-queue memory is safe and every payload is dropped exactly once.

use crate::cq::{self, Op, Payload, QParams};
use crate::engine::*;
use proptest::prelude::*;
use serde::{Deserialize, Serialize};
use std::time::Duration;

#[derive(Clone, Debug, Serialize, Deserialize)]
pub struct Case {
    pub params: QParams,
    /// index into the payload type table
    pub payload: u8,
    /// index into the page size table (0 = the default constructor / system page size)
    pub page: u8,
    pub ops: Vec<Op>,
    /// drop the queue after this many ops with whatever is pending (None: drain first)
    pub drop_at: Option<u16>,
}

pub const PAGES: [usize; 8] = [0, 4096, 8192, 16384, 256, 512, 1024, 2048];
pub const PAYLOADS: [&str; 20] = [
    "u64", "P1A1D", "P3A1", "P3A1D", "P8A8D", "P6A2D", "P24A4D", "P24A16D", "P100A4", "P100A1D", "P500A2D", "P1000A16D",
    "P2000A8D", "Heapy", "FaultyDrop", "P40A32D", "P64A64D", "P200A1D", "P208A8D", "P4047A1D",
];

macro_rules! per_payload {
    ($idx:expr, $m:ident) => {
        match $idx {
            0 => $m!(u64),
            1 => $m!(cq::P1A1D),
            2 => $m!(cq::P3A1),
            3 => $m!(cq::P3A1D),
            4 => $m!(cq::P8A8D),
            5 => $m!(cq::P6A2D),
            6 => $m!(cq::P24A4D),
            7 => $m!(cq::P24A16D),
            8 => $m!(cq::P100A4),
            9 => $m!(cq::P100A1D),
            10 => $m!(cq::P500A2D),
            11 => $m!(cq::P1000A16D),
            12 => $m!(cq::P2000A8D),
            13 => $m!(cq::Heapy),
            14 => $m!(cq::FaultyDrop),
            15 => $m!(cq::P40A32D),
            16 => $m!(cq::P64A64D),
            17 => $m!(cq::P200A1D),
            18 => $m!(cq::P208A8D),
            _ => $m!(cq::P4047A1D),
        }
    };
}

fn node_size_of(payload: usize) -> usize {
    macro_rules! ns {
        ($t:ty) => {
            cq::node_size::<$t>()
        };
    }
    per_payload!(payload % PAYLOADS.len(), ns)
}

pub struct C15;

fn page_for(case: &Case) -> Option<usize> {
    let p = PAGES[case.page as usize % PAGES.len()];
    if p == 0 {
        return None;
    }
    // a node must fit into one page; any size up to the page size itself does
    let need = node_size_of(case.payload as usize);
    if p < need {
        Some(4096)
    } else {
        Some(p)
    }
}

pub fn run_case(case: &Case) -> Outcome {
    let opt = cq::Options {
        tie_order: false,
        structure: true,
        memory: true,
        page_size: page_for(case),
        drop_at: case.drop_at.map(|d| d as usize),
    };
    macro_rules! go {
        ($t:ty) => {
            cq::interpret::<$t>(&case.params, &case.ops, &opt)
        };
    }
    // at most 20000 pages per history (the longest generated history needs a few thousand): see lib.rs, page_budget
    #[cfg(not(any(vcheck_miri, vcheck_heap_backend)))]
    crate::page_budget::arm(Some(20_000));
    let r = per_payload!(case.payload as usize % PAYLOADS.len(), go);
    #[cfg(not(any(vcheck_miri, vcheck_heap_backend)))]
    crate::page_budget::arm(None);
    match r {
        Err(f) => Outcome::failed(f),
        Ok(fl) => {
            let mut labels = vec![PAYLOADS[case.payload as usize % PAYLOADS.len()]];
            if fl.pages > 1 {
                labels.push("more-than-one-page");
            }
            if fl.pages > 8 {
                labels.push("more-than-8-pages");
            }
            if fl.addr_reused {
                labels.push("node-address-reused-after-free");
            }
            if fl.dropped_nonempty {
                labels.push("queue-dropped-with-events-pending");
            }
            if fl.cancel_after_fetch {
                labels.push("cancel-pending-after-fetch");
            }
            if fl.faulty_cancels > 0 {
                labels.push("cancel-with-faulting-destructor");
            }
            let nontrivial = fl.pages > 1 && fl.addr_reused && fl.dropped_nonempty;
            Outcome::ok(nontrivial, labels)
        }
    }
}

impl Prop for C15 {
    const ID: &'static str = "C15";
    type Case = Case;

    fn rule() -> String {
        "proptest histories (the C01 op generator) x 20 payload types (1 byte .. 4047 bytes, align 1..64, node sizes up to exactly one page and 8 bytes short of a page, with/without destructor, one owning heap \
         memory, one whose destructor panics on demand during a cancel) x page sizes {system, 4K, 8K, 16K, 256..2048} x queue parameterisations, optionally dropping the queue with events pending; oracle = \
         after ops the hook snapshot must show pairwise disjoint, aligned, in-page live nodes (incl. the 2n sentinels), disjoint in-page free regions, \
         allocated_mem == live*node size; payload bytes intact on fetch; per-payload drop counter exactly 1 after fetch/cancel/queue drop and 0 while \
         pending. Non-trivial iff the history used more than one page AND a node address was reused after a free AND the queue was dropped non-empty."
            .into()
    }
    fn assumptions() -> Vec<String> {
        vec![
            "node fits a page (node size <= page size, both boundary cases included: a node exactly as large as the page and one 8 bytes smaller), page sizes are powers of two".into(),
            "intra-page overlap is judged from the hook snapshot; out-of-page access is left to the ASan fuzz target (thorough)".into(),
        ]
    }
    fn plan(tier: Tier) -> Plan {
        Plan {
            shards: tier.pick(4, 16),
            cases_per_shard: tier.pick(1_500, 6_000),
            watchdog: Duration::from_secs(tier.pick(300, 3600)),
        }
    }
    fn strategy(tier: Tier) -> BoxedStrategy<Case> {
        let max = tier.pick(300, 1200);
        let params = prop_oneof![
            6 => (0usize..6, 0..cq::TS.len()).prop_map(|(a, b)| QParams { n: [1, 2, 3, 5, 8, 32][a], t_ns: cq::TS[b] }),
            1 => cq::params_strategy(),
        ];
        (
            params,
            0u8..PAYLOADS.len() as u8,
            0u8..PAGES.len() as u8,
            proptest::collection::vec(cq::op_strategy(), 0..max),
            proptest::option::weighted(0.6, any::<u16>()),
        )
            .prop_map(|(params, payload, page, ops, drop_at)| {
                let drop_at = drop_at.map(|d| ((d as usize * (ops.len() + 1)) >> 16) as u16);
                Case {
                    params,
                    payload,
                    page,
                    ops,
                    drop_at,
                }
            })
            .boxed()
    }
    fn run(case: &Case) -> Outcome {
        run_case(case)
    }
    fn signal_is_violation() -> bool {
        true
    }
    fn extra(tier: Tier, seed: u64, ev: &mut ExtraEvidence) -> Vec<Violation> {
        if tier != Tier::Thorough {
            return Vec::new();
        }
        let mut v = miri_extra(seed, ev);
        v.extend(crate::fuzz::run(
            &crate::fuzz::Campaign {
                property: "C15",
                target: "cq_memory",
                asan: true,
                runs: 100_000,
                max_len: 600,
                seed,
                seeds: crate::fuzz::random_seeds(seed, 24, 600),
                max_time: 600,
            },
            ev,
        ));
        v
    }
}

#[allow(dead_code)]
fn _assert_sizes() {
    let _ = <cq::P24A16D as Payload>::NAME;
}
