//! C20 – dropping a simulation releases every module, task and message exactly once.

use crate::c13;
use crate::engine::*;
use crate::net::{du, st};
use crate::{vensure, vfail};
use des::net::channel::{ChannelDropBehaviour, ChannelMetrics};
use des::net::processing::{ProcessingElement, ProcessingStack};
use des::prelude::*;
use des::time::sleep;
use proptest::prelude::*;
use serde::{Deserialize, Serialize};
use std::cell::RefCell;
use std::time::Duration as StdDuration;

thread_local! {
    /// (what, drop count) per tracked instance
    static REG: RefCell<Vec<(String, u8)>> = const { RefCell::new(Vec::new()) };
}

thread_local! {
    /// generation of the registry (one per case) and number of values of an older generation dropped meanwhile
    static GEN: std::cell::Cell<u64> = const { std::cell::Cell::new(0) };
    static STALE: std::cell::Cell<u64> = const { std::cell::Cell::new(0) };
}

pub struct Tok(usize, u64);
impl Tok {
    pub fn new(what: impl Into<String>) -> Tok {
        REG.with(|r| {
            let mut r = r.borrow_mut();
            r.push((what.into(), 0));
            Tok(r.len() - 1, GEN.with(|g| g.get()))
        })
    }
}
impl Drop for Tok {
    fn drop(&mut self) {
        if self.1 != GEN.with(|g| g.get()) {
            // a value that outlived the simulation (and the case) it belonged to
            STALE.with(|s| s.set(s.get() + 1));
            return;
        }
        REG.with(|r| {
            if let Some(e) = r.borrow_mut().get_mut(self.0) {
                e.1 += 1;
            }
        });
    }
}
impl std::fmt::Debug for Tok {
    fn fmt(&self, f: &mut std::fmt::Formatter<'_>) -> std::fmt::Result {
        write!(f, "Tok#{}", self.0)
    }
}

#[derive(Debug)]
struct TokBody(Tok, u16);
impl Clone for TokBody {
    fn clone(&self) -> Self {
        TokBody(Tok::new("message body (clone)"), self.1)
    }
}
impl MessageBody for TokBody {
    fn byte_len(&self) -> usize {
        self.1 as usize
    }
}

thread_local! {
    /// (created, dropped) zero-sized bodies of the current case
    static ZST: std::cell::Cell<(u32, u32)> = const { std::cell::Cell::new((0, 0)) };
}

/// A zero-sized message body with a destructor: it cannot carry a token, so creations and drops are counted.
#[derive(Debug)]
struct ZstBody;
impl ZstBody {
    fn new() -> Self {
        ZST.with(|z| z.set((z.get().0 + 1, z.get().1)));
        ZstBody
    }
}
impl Clone for ZstBody {
    fn clone(&self) -> Self {
        ZstBody::new()
    }
}
impl Drop for ZstBody {
    fn drop(&mut self) {
        ZST.with(|z| z.set((z.get().0, z.get().1 + 1)));
    }
}
impl MessageBody for ZstBody {
    fn byte_len(&self) -> usize {
        0
    }
}

#[derive(Clone, Debug, Serialize, Deserialize, PartialEq)]
pub enum Stop {
    BuilderDropped,
    SimDropped,
    RuntimeDroppedBeforeStart,
    MaxItr(u16),
    MaxTimeMs(u16),
    Complete,
}

#[derive(Clone, Debug, Serialize, Deserialize, PartialEq)]
pub enum TaskKind {
    SleepLong,
    Pending,
    Recv,
    /// finishes after a short sleep
    Short,
}

#[derive(Clone, Debug, Serialize, Deserialize)]
pub struct ModSpec {
    /// child of an earlier module?
    pub parent: Option<u16>,
    /// messages pushed into the (slow, queueing) ring channel at start: body sizes
    pub burst: Vec<u16>,
    /// self messages with tracked bodies at these instants (ms)
    pub selfs: Vec<u16>,
    pub tasks: Vec<TaskKind>,
    /// must-join the tasks (an unfinished one makes run() return NotFinished)
    pub must_join: bool,
    /// shut down at this time (ms), optionally restart after (ms)
    pub shutdown: Option<(u16, Option<u16>)>,
    /// panic in the k-th handle_message call
    pub panic_at: Option<u8>,
    /// keep the last received message in the module state
    pub keep_last: bool,
    /// emit a self message and a gate message with tracked bodies from at_sim_end (never dispatched)
    #[serde(default)]
    pub emit_at_end: bool,
}

/// A node built from des' own building block `AsyncFn`: the generated future owns a tracked token, keeps every
/// message it receives and never finishes (it is blocked in `rx.recv()` when the simulation is dropped).
#[derive(Clone, Debug, Serialize, Deserialize)]
pub struct BlockSpec {
    /// 0: AsyncFn::new, 1: AsyncFn::failable, 2: AsyncFn::io
    pub kind: u8,
    /// an ordinary module with tracked state below the block node
    pub child: bool,
    /// messages with tracked bodies injected at these instants (ms)
    pub msgs: Vec<u16>,
}

#[derive(Clone, Debug, Serialize, Deserialize)]
pub struct Case {
    /// nodes built with AsyncFn (standalone, fed by injected messages)
    #[serde(default)]
    pub blocks: Vec<BlockSpec>,
    pub mods: Vec<ModSpec>,
    /// processing elements (with a token each) in the global stack
    pub stack: u8,
    /// ring wiring (out -> next.in) with a slow queueing channel; otherwise a chain without the closing link
    pub ring: bool,
    pub bitrate: u32,
    pub stop: Stop,
    /// every link runs through two transit gates of a relay module (out - sw.a == sw.b - in); the middle hop, which
    /// carries the slow queueing channel, is connected last
    #[serde(default)]
    pub via_relay: bool,
    /// a processing element of the global stack panics in its `incoming` hook for the k-th message it sees (this is
    /// outside the per-module panic handling: run() unwinds); everything still has to be released exactly once
    #[serde(default)]
    pub pe_panic: Option<u8>,
}

pub struct C20;

struct PE(#[allow(dead_code)] Tok);
impl ProcessingElement for PE {}

thread_local! {
    /// messages seen by panicking elements / the count at which they panic (0 = never)
    static PE_SEEN: std::cell::Cell<u32> = const { std::cell::Cell::new(0) };
    static PE_PANIC_AT: std::cell::Cell<u32> = const { std::cell::Cell::new(0) };
}

struct PanickyPE(#[allow(dead_code)] Tok);
impl ProcessingElement for PanickyPE {
    fn incoming(&mut self, msg: Message) -> Option<Message> {
        let n = PE_SEEN.with(|c| {
            c.set(c.get() + 1);
            c.get()
        });
        if n == PE_PANIC_AT.with(|c| c.get()) {
            panic!("injected fault in a processing element");
        }
        Some(msg)
    }
}

struct M {
    #[allow(dead_code)]
    state: Tok,
    spec: ModSpec,
    handled: u8,
    kept: Option<Message>,
    rx_keepalive: Vec<tokio::sync::mpsc::Sender<u8>>,
}

impl Module for M {
    fn at_sim_start(&mut self, _: usize) {
        for (k, b) in self.spec.burst.iter().enumerate() {
            send(Message::default().kind(2).id(k as u16).with_content(TokBody(Tok::new("message body (sent at start)"), *b % 600)), "out");
        }
        for (k, t) in self.spec.selfs.iter().enumerate() {
            let msg = Message::default().kind(1).id(k as u16);
            // every third self message carries a zero-sized body with a destructor
            let msg = if k % 3 == 2 { msg.with_content(ZstBody::new()) } else { msg.with_content(TokBody(Tok::new("message body (self message)"), 1)) };
            schedule_in(msg, du(*t as u128 * 1_000_000 + k as u128));
        }
        if let Some((t, _)) = self.spec.shutdown {
            schedule_in(Message::default().kind(9), du(t as u128 * 1_000_000 + 500));
        }
        for t in &self.spec.tasks {
            let tok = Tok::new(format!("state captured by a task ({t:?})"));
            let kind = t.clone();
            let (tx, mut rx) = tokio::sync::mpsc::channel::<u8>(1);
            if kind == TaskKind::Recv {
                self.rx_keepalive.push(tx);
            }
            let h = tokio::spawn(async move {
                let _own = tok;
                match kind {
                    TaskKind::SleepLong => sleep(Duration::from_secs(3600)).await,
                    TaskKind::Pending => std::future::pending::<()>().await,
                    TaskKind::Recv => {
                        let _ = rx.recv().await;
                    }
                    TaskKind::Short => sleep(Duration::from_millis(3)).await,
                }
            });
            if self.spec.must_join {
                current().join(h);
            } else {
                current().try_join(h);
            }
        }
    }
    fn handle_message(&mut self, msg: Message) {
        self.handled += 1;
        if self.spec.panic_at == Some(self.handled) {
            panic!("injected");
        }
        if msg.header().kind == 9 {
            match self.spec.shutdown {
                Some((_, Some(r))) => current().shutdow_and_restart_in(du(r as u128 * 1_000_000)),
                _ => current().shutdown(),
            }
            return;
        }
        if self.spec.keep_last {
            self.kept = Some(msg);
        }
    }
    fn reset(&mut self) {
        self.rx_keepalive.clear();
    }
    fn at_sim_end(&mut self) -> Result<(), RuntimeError> {
        if self.spec.emit_at_end {
            schedule_in(Message::default().kind(1).with_content(TokBody(Tok::new("message body (scheduled in at_sim_end)"), 1)), Duration::from_millis(1));
            send(Message::default().kind(2).with_content(TokBody(Tok::new("message body (sent in at_sim_end)"), 1)), "out");
        }
        Ok(())
    }
}

fn check_registry(what: &str) -> Result<usize, Failure> {
    REG.with(|r| {
        let r = r.borrow();
        for (i, (w, c)) in r.iter().enumerate() {
            vensure!(*c <= 1, "dropped-twice", "{what}: tracked value #{i} ({w}) was dropped {c} times");
        }
        let alive: Vec<String> = r.iter().filter(|(_, c)| *c == 0).map(|(w, _)| w.clone()).collect();
        if !alive.is_empty() {
            let mut kinds = alive.clone();
            kinds.sort();
            kinds.dedup();
            let sig = if kinds.iter().all(|k| k.starts_with("message body")) {
                "message-leaked"
            } else {
                "value-leaked"
            };
            vfail!(sig, "{what}: {} of {} tracked values were never dropped: {:?}", alive.len(), r.len(), kinds);
        }
        Ok(r.len())
    })
}

pub fn run_case(case: &Case) -> Result<(bool, Vec<&'static str>), Failure> {
    c13::ensure_golden()?;
    REG.with(|r| r.borrow_mut().clear());
    GEN.with(|g| g.set(g.get() + 1));
    STALE.with(|s| s.set(0));
    ZST.with(|z| z.set((0, 0)));
    let n = case.mods.len().clamp(1, 8);
    let stack = case.stack % 3;
    PE_SEEN.with(|c| c.set(0));
    PE_PANIC_AT.with(|c| c.set(case.pe_panic.map_or(0, |k| k as u32 % 6 + 1)));
    let panicky = case.pe_panic.is_some();
    let mut sim = Sim::new(()).with_stack(move || {
        let mut s = ProcessingStack::default();
        for _ in 0..stack {
            s.append(PE(Tok::new("processing element")));
        }
        if panicky {
            s.append(PanickyPE(Tok::new("processing element (panics in incoming)")));
        }
        s
    });
    let mut paths: Vec<String> = Vec::new();
    for (i, m) in case.mods.iter().take(n).enumerate() {
        let p = match m.parent {
            Some(pi) if i > 0 => format!("{}.c{i}", paths[idx(pi, i)]),
            _ => format!("m{i}"),
        };
        sim.node(
            p.as_str(),
            M {
                state: Tok::new("module state"),
                spec: m.clone(),
                handled: 0,
                kept: None,
                rx_keepalive: Vec::new(),
            },
        );
        paths.push(p);
    }
    let mut block_paths: Vec<String> = Vec::new();
    for (k, b) in case.blocks.iter().take(3).enumerate() {
        use des::net::blocks::AsyncFn;
        type Rx = tokio::sync::mpsc::Receiver<Message>;
        async fn hoard(mut rx: Rx) {
            let _own = Tok::new("state captured by an AsyncFn future");
            let mut kept: Vec<Message> = Vec::new();
            while let Some(m) = rx.recv().await {
                kept.push(m);
            }
        }
        let p = format!("afn{k}");
        let node = match b.kind % 3 {
            0 => AsyncFn::new(hoard),
            1 => AsyncFn::failable(|rx: Rx| async move {
                hoard(rx).await;
                Ok::<(), std::fmt::Error>(())
            }),
            _ => AsyncFn::io(|rx: Rx| async move {
                hoard(rx).await;
                Ok(())
            }),
        };
        sim.node(p.as_str(), node);
        if b.child {
            sim.node(
                format!("{p}.child").as_str(),
                M {
                    state: Tok::new("module state (child of an AsyncFn node)"),
                    spec: ModSpec {
                        parent: None,
                        burst: Vec::new(),
                        selfs: Vec::new(),
                        tasks: Vec::new(),
                        must_join: false,
                        shutdown: None,
                        panic_at: None,
                        keep_last: false,
                        emit_at_end: false,
                    },
                    handled: 0,
                    kept: None,
                    rx_keepalive: Vec::new(),
                },
            );
        }
        block_paths.push(p);
    }
    let plain = |what: &str| M {
        state: Tok::new(what),
        spec: ModSpec {
            parent: None,
            burst: Vec::new(),
            selfs: Vec::new(),
            tasks: Vec::new(),
            must_join: false,
            shutdown: None,
            panic_at: None,
            keep_last: false,
            emit_at_end: false,
        },
        handled: 0,
        kept: None,
        rx_keepalive: Vec::new(),
    };
    if case.via_relay {
        sim.node("sw", plain("module state (relay)"));
    }
    let links = if case.ring { n } else { n - 1 };
    for i in 0..n {
        // every module owns an out gate; only `links` of them are wired
        let out = sim.gate(paths[i].as_str(), "out");
        let inp = sim.gate(paths[(i + 1) % n].as_str(), "in");
        if i < links && (n > 1 || case.ring) {
            let ch = Channel::new(ChannelMetrics::new(
                case.bitrate.max(1) as usize,
                Duration::from_millis(1),
                Duration::ZERO,
                ChannelDropBehaviour::Queue(None),
            ));
            if !std::sync::Arc::ptr_eq(&out, &inp) {
                if case.via_relay {
                    let a = sim.gate("sw", &format!("a{i}"));
                    let b = sim.gate("sw", &format!("b{i}"));
                    out.connect(a.clone(), None);
                    b.clone().connect(inp, None);
                    a.connect(b, Some(ch));
                } else {
                    out.connect(inp, Some(ch));
                }
            }
        }
    }
    let mut labels: Vec<&'static str> = Vec::new();
    let mut pending_at_stop = false;
    match &case.stop {
        Stop::BuilderDropped => drop(sim),
        Stop::SimDropped => drop(sim.freeze()),
        Stop::RuntimeDroppedBeforeStart => {
            let mut rt = Builder::seeded(1).quiet().build(sim.freeze());
            let target = rt.app.get(&ObjectPath::from(paths[0].as_str())).unwrap();
            rt.handle_message_on(target.clone(), Message::default().with_content(TokBody(Tok::new("message body (injected, never run)"), 5)), st(1_000));
            // and one for "never": an event at the largest representable time is owned like any other
            rt.handle_message_on(target, Message::default().with_content(TokBody(Tok::new("message body (injected at SimTime::MAX, never run)"), 5)), SimTime::MAX);
            drop(rt);
        }
        other => {
            let mut b = Builder::seeded(1).quiet();
            b = match other {
                Stop::MaxItr(k) => b.max_itr(*k as usize),
                Stop::MaxTimeMs(t) => b.max_time(st(*t as u128 * 1_000_000)),
                _ => b.max_itr(200_000),
            };
            let mut rt = b.build(sim.freeze());
            for (k, p) in block_paths.iter().enumerate() {
                let target = rt.app.get(&ObjectPath::from(p.as_str())).unwrap();
                for (j, t) in case.blocks[k].msgs.iter().take(6).enumerate() {
                    let body = TokBody(Tok::new("message body (injected at an AsyncFn node)"), 3);
                    rt.handle_message_on(target.clone(), Message::default().id(j as u16).with_content(body), st(*t as u128 * 1_000_000 + 700 + j as u128));
                }
            }
            match catch(|| rt.run()) {
                Ok(res) => {
                    match &res {
                        Ok((_, _, p)) => {
                            if !p.remaining.is_empty() {
                                pending_at_stop = true;
                                labels.push("events-pending-at-stop");
                            }
                        }
                        Err(_) => labels.push("run-ended-with-error"),
                    }
                    drop(res);
                }
                // a panic of a processing element is not contained by the module harness: run() unwinds and takes the
                // runtime with it; what it owned has to be released all the same
                Err((msg, _)) if msg.contains("injected fault in a processing element") => labels.push("run-unwound-by-a-processing-element-panic"),
                Err((msg, loc)) => vfail!("simulator-aborted", "run() unwound: {msg} @ {loc}"),
            }
        }
    }
    let total = check_registry(&format!("after dropping everything ({:?})", case.stop))?;
    let (zc, zd) = ZST.with(|z| z.get());
    vensure!(
        zc == zd,
        if zd < zc { "message-leaked" } else { "dropped-twice" },
        "after dropping everything ({:?}): {zc} zero-sized message bodies with a destructor were created, {zd} destructor calls were counted",
        case.stop
    );
    if zc > 0 {
        labels.push("zero-sized-body-with-destructor");
    }
    c13::check_followup("dropping a simulation")?;
    let stale = STALE.with(|s| s.get());
    vensure!(
        stale == 0,
        "value-outlived-its-simulation",
        "{stale} tracked values of an earlier simulation were dropped only while this one ran"
    );
    let backlog = case.mods.iter().take(n).any(|m| m.burst.len() >= 2) && n > 1;
    let blocked = case.mods.iter().take(n).any(|m| m.tasks.iter().any(|t| *t != TaskKind::Short));
    if backlog {
        labels.push("channel-backlog");
    }
    if blocked {
        labels.push("blocked-task");
    }
    if case.mods.iter().take(n).any(|m| m.shutdown.is_some()) {
        labels.push("shutdown-or-restart");
    }
    if case.mods.iter().take(n).any(|m| m.parent.is_some()) {
        labels.push("parent-child");
    }
    if case.ring {
        labels.push("ring");
    }
    if !block_paths.is_empty() {
        labels.push("AsyncFn-building-block");
    }
    if case.via_relay && (n > 1 || case.ring) {
        labels.push("links-through-transit-gates-middle-hop-connected-last");
    }
    if case.mods.iter().take(n).any(|m| m.emit_at_end) && !matches!(case.stop, Stop::BuilderDropped | Stop::SimDropped | Stop::RuntimeDroppedBeforeStart) {
        labels.push("events-emitted-during-tear-down");
    }
    if total >= 20 {
        labels.push(">=20-tracked-values");
    }
    Ok((pending_at_stop && backlog && blocked, labels))
}

impl Prop for C20 {
    const ID: &'static str = "C20";
    type Case = Case;

    fn rule() -> String {
        "proptest: 1..8 modules (flat or parent/child) wired as a ring or chain over slow queueing channels (directly, or through two transit gates of a relay module with the middle hop connected last), each pushing a burst of instance-tracked \
         message bodies at start (channel backlog), scheduling tracked self messages (every third one with a zero-sized body that has a destructor, counted instead of tracked), spawning tasks blocked on a one-hour sleep / pending / recv / \
         short sleep that own tracked tokens (try_join or must-join), optionally shutting down (and restarting), panicking in the k-th handler \
         call, keeping the last message in its state, emitting messages from at_sim_end; 0..2 nodes built with des' AsyncFn building block (new / failable / io) whose \
         future owns a token, hoards the injected messages and is blocked in recv() at the drop, optionally with a child module; 0..2 tracked processing elements per module; stopping point in {builder dropped, frozen Sim \
         dropped, Runtime dropped before start (with an event pending at SimTime::MAX), max_itr(k), max_time(t), run to completion (possibly ending with PanicError / NotFinished)}. Oracle: \
         after dropping every value the API returned, every tracked instance was dropped exactly once (none alive, none twice), and a canonical \
         follow-up simulation reproduces the trace of a fresh process. Non-trivial iff events were pending at the stop AND a channel had a \
         backlog AND a task was blocked."
            .into()
    }
    fn assumptions() -> Vec<String> {
        vec!["tracked values are counted per worker thread; the follow-up trace is the C13 canonical ring".into()]
    }
    fn plan(tier: Tier) -> Plan {
        Plan {
            shards: tier.pick(4, 16),
            cases_per_shard: tier.pick(1_500, 20_000),
            watchdog: StdDuration::from_secs(tier.pick(300, 3600)),
        }
    }
    fn strategy(_tier: Tier) -> BoxedStrategy<Case> {
        let task = prop_oneof![Just(TaskKind::SleepLong), Just(TaskKind::Pending), Just(TaskKind::Recv), Just(TaskKind::Short)];
        let m = (
            proptest::option::weighted(0.3, any::<u16>()),
            proptest::collection::vec(0u16..600, 0..5),
            proptest::collection::vec(0u16..40, 0..4),
            proptest::collection::vec(task, 0..3),
            proptest::bool::weighted(0.2),
            proptest::option::weighted(0.25, (0u16..30, proptest::option::weighted(0.6, 0u16..20))),
            proptest::option::weighted(0.1, 1u8..4),
            any::<bool>(),
            proptest::bool::weighted(0.3),
        )
            .prop_map(|(parent, burst, selfs, tasks, must_join, shutdown, panic_at, keep_last, emit_at_end)| ModSpec {
                parent,
                burst,
                selfs,
                tasks,
                must_join,
                shutdown,
                panic_at,
                keep_last,
                emit_at_end,
            });
        let stop = prop_oneof![
            1 => Just(Stop::BuilderDropped),
            1 => Just(Stop::SimDropped),
            1 => Just(Stop::RuntimeDroppedBeforeStart),
            4 => (0u16..40).prop_map(Stop::MaxItr),
            3 => (0u16..60).prop_map(Stop::MaxTimeMs),
            3 => Just(Stop::Complete),
        ];
        let block = (0u8..3, any::<bool>(), proptest::collection::vec(0u16..40, 0..5)).prop_map(|(kind, child, msgs)| BlockSpec { kind, child, msgs });
        (
            proptest::collection::vec(m, 1..=8),
            0u8..3,
            any::<bool>(),
            prop_oneof![Just(8_000u32), Just(100_000), Just(1_000_000), Just(100)],
            stop,
            prop_oneof![2 => Just(Vec::new()), 1 => proptest::collection::vec(block, 1..3)],
            proptest::bool::weighted(0.4),
            proptest::option::weighted(0.15, 0u8..6),
        )
            .prop_map(|(mods, stack, ring, bitrate, stop, blocks, via_relay, pe_panic)| Case {
                via_relay,
                pe_panic,
                blocks,
                mods,
                stack,
                ring,
                bitrate,
                stop,
            })
            .boxed()
    }
    fn run(case: &Case) -> Outcome {
        match run_case(case) {
            Ok((nt, labels)) => Outcome::ok(nt, labels),
            Err(f) => Outcome::failed(f),
        }
    }
}
