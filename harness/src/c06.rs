//! C06 – all runnable async work finishes within the simulated instant that enabled it.

use crate::engine::*;
use crate::net::{self, du, st};
use crate::{vensure, vfail};
use des::prelude::*;
use des::time::sleep;
use proptest::prelude::*;
use serde::{Deserialize, Serialize};
use std::sync::Arc;
use std::time::Duration as StdDuration;
use tokio::sync::{mpsc, oneshot, Notify, Semaphore};
use tokio::task::yield_now;

#[derive(Clone, Debug, Serialize, Deserialize, PartialEq)]
pub enum Prim {
    Notify,
    Mpsc,
    Oneshot,
    Semaphore,
}

#[derive(Clone, Debug, Serialize, Deserialize, PartialEq)]
pub enum Mode {
    /// n tasks parked on a primitive, all released by the trigger
    Fanout(u16, Prim),
    /// task i wakes task i+1 (oneshot); depth d
    Chain(u16),
    /// task i awaits the JoinHandle of task i-1; depth d
    JoinChain(u16),
    /// one task receives k items that are all sent by the trigger
    BulkRecv(u16),
    /// the trigger spawns n tasks which log at once
    SpawnBurst(u16),
    /// n tasks each sleep until the same instant T (all woken by one timer wake-up, no trigger needed)
    Sleepers(u16),
}

#[derive(Clone, Debug, Serialize, Deserialize)]
pub struct Case {
    pub mode: Mode,
    /// yield_now() calls inside each task after it was woken
    pub yields: u8,
    /// true: the release is done by a task woken by a timer; false: by handle_message
    pub timer_trigger: bool,
    /// use spawn_local (only from synchronous callbacks) instead of tokio::spawn
    pub local: bool,
    /// instant of the trigger (ms) and distance of the later unrelated event (ms, >= 1)
    pub t_ms: u16,
    pub gap_ms: u16,
    /// the trigger message is consumed by a processing element which performs the release in its `incoming`
    /// hook (the module's handle_message is never called for it)
    #[serde(default)]
    pub via_element: bool,
    /// the code that performs the release also asks for the module's shutdown in the same event (Some(true): with a
    /// restart 500 us later). The shutdown takes effect at the end of that event, so everything released in it still
    /// has to run in that instant.
    #[serde(default)]
    pub shutdown: Option<bool>,
}

pub struct C06;

thread_local! {
    /// the release action handed to the consuming processing element
    static ELEMENT_RELEASE: std::cell::RefCell<Option<Release>> = const { std::cell::RefCell::new(None) };
}

struct Consumer;
impl des::net::processing::ProcessingElement for Consumer {
    fn incoming(&mut self, msg: Message) -> Option<Message> {
        if msg.header().id == 1 {
            net::log("trigger", 1, 0);
            if let Some(r) = ELEMENT_RELEASE.with(|r| r.borrow_mut().take()) {
                do_release(&r);
            }
            None
        } else {
            Some(msg)
        }
    }
}

#[derive(Clone)]
enum Release {
    Notify(Arc<Notify>),
    Mpsc(Vec<mpsc::UnboundedSender<u32>>),
    Oneshot(Vec<Arc<std::sync::Mutex<Option<oneshot::Sender<()>>>>>),
    Semaphore(Arc<Semaphore>, usize),
    Bulk(mpsc::UnboundedSender<u32>, usize),
    Spawn(usize, u8, bool),
    None,
}

fn do_release(r: &Release) {
    match r {
        Release::Notify(n) => n.notify_waiters(),
        Release::Mpsc(txs) => {
            for (i, tx) in txs.iter().enumerate() {
                let _ = tx.send(i as u32);
            }
        }
        Release::Oneshot(txs) => {
            for tx in txs {
                if let Some(tx) = tx.lock().unwrap().take() {
                    let _ = tx.send(());
                }
            }
        }
        Release::Semaphore(s, n) => s.add_permits(*n),
        Release::Bulk(tx, k) => {
            for i in 0..*k {
                let _ = tx.send(i as u32);
            }
        }
        Release::Spawn(n, yields, local) => {
            for i in 0..*n {
                let yields = *yields;
                let fut = async move {
                    for _ in 0..yields {
                        yield_now().await;
                    }
                    net::log("woke", i as i64, 0);
                };
                if *local {
                    current().join(tokio::task::spawn_local(fut));
                } else {
                    current().join(tokio::spawn(fut));
                }
            }
        }
        Release::None => {}
    }
}

struct W {
    case: Case,
    release: Release,
    started: bool,
}

fn request_shutdown(how: Option<bool>) {
    match how {
        None => {}
        Some(false) => {
            net::log("shutdown-request", 0, 0);
            current().shutdown();
        }
        Some(true) => {
            net::log("shutdown-request", 1, 0);
            current().shutdow_and_restart_in(Duration::from_micros(500));
        }
    }
}

impl W {
    fn spawn<F: std::future::Future<Output = ()> + Send + 'static>(&self, fut: F) -> tokio::task::JoinHandle<()> {
        if self.case.local {
            tokio::task::spawn_local(fut)
        } else {
            tokio::spawn(fut)
        }
    }
}

impl Module for W {
    fn stack(&self, mut stack: des::net::processing::ProcessingStack) -> des::net::processing::ProcessingStack {
        if self.case.via_element && !matches!(self.case.mode, Mode::SpawnBurst(_)) {
            stack.append(Consumer);
        }
        stack
    }
    fn at_sim_start(&mut self, _: usize) {
        if self.started {
            // second incarnation after a shutdown: nothing to set up again
            net::log("restarted", 0, 0);
            return;
        }
        self.started = true;
        let yields = self.case.yields;
        let after_wake = move |i: usize| async move {
            for _ in 0..yields {
                yield_now().await;
            }
            net::log("woke", i as i64, 0);
        };
        self.release = match self.case.mode.clone() {
            Mode::Fanout(n, prim) => {
                let n = n as usize;
                match prim {
                    Prim::Notify => {
                        let notify = Arc::new(Notify::new());
                        for i in 0..n {
                            let nf = notify.clone();
                            // register interest before parking so that notify_waiters reaches every task
                            let h = self.spawn(async move {
                                nf.notified().await;
                                after_wake(i).await;
                            });
                            current().join(h);
                        }
                        Release::Notify(notify)
                    }
                    Prim::Mpsc => {
                        let mut txs = Vec::new();
                        for i in 0..n {
                            let (tx, mut rx) = mpsc::unbounded_channel::<u32>();
                            txs.push(tx);
                            let h = self.spawn(async move {
                                let _ = rx.recv().await;
                                after_wake(i).await;
                            });
                            current().join(h);
                        }
                        Release::Mpsc(txs)
                    }
                    Prim::Oneshot => {
                        let mut txs = Vec::new();
                        for i in 0..n {
                            let (tx, rx) = oneshot::channel::<()>();
                            txs.push(Arc::new(std::sync::Mutex::new(Some(tx))));
                            let h = self.spawn(async move {
                                let _ = rx.await;
                                after_wake(i).await;
                            });
                            current().join(h);
                        }
                        Release::Oneshot(txs)
                    }
                    Prim::Semaphore => {
                        let sem = Arc::new(Semaphore::new(0));
                        for i in 0..n {
                            let s = sem.clone();
                            let h = self.spawn(async move {
                                let p = s.acquire().await.unwrap();
                                p.forget();
                                after_wake(i).await;
                            });
                            current().join(h);
                        }
                        Release::Semaphore(sem, n)
                    }
                }
            }
            Mode::Chain(depth) => {
                let depth = depth as usize;
                let mut first = None;
                let mut next_rx: Option<oneshot::Receiver<()>> = None;
                for i in 0..depth {
                    let (tx, rx) = oneshot::channel::<()>();
                    let my_rx = match next_rx.take() {
                        Some(r) => r,
                        None => {
                            let (tx0, rx0) = oneshot::channel::<()>();
                            first = Some(Arc::new(std::sync::Mutex::new(Some(tx0))));
                            rx0
                        }
                    };
                    next_rx = Some(rx);
                    let h = self.spawn(async move {
                        let _ = my_rx.await;
                        after_wake(i).await;
                        let _ = tx.send(());
                    });
                    current().join(h);
                }
                Release::Oneshot(first.into_iter().collect())
            }
            Mode::JoinChain(depth) => {
                let depth = depth as usize;
                let notify = Arc::new(Notify::new());
                let nf = notify.clone();
                let mut prev = self.spawn(async move {
                    nf.notified().await;
                    after_wake(0).await;
                });
                for i in 1..depth.max(1) {
                    let p = prev;
                    prev = self.spawn(async move {
                        let _ = p.await;
                        after_wake(i).await;
                    });
                }
                current().join(prev);
                Release::Notify(notify)
            }
            Mode::BulkRecv(k) => {
                let k = k as usize;
                let (tx, mut rx) = mpsc::unbounded_channel::<u32>();
                let h = self.spawn(async move {
                    for i in 0..k {
                        let _ = rx.recv().await;
                        net::log("woke", i as i64, 0);
                    }
                });
                current().join(h);
                Release::Bulk(tx, k)
            }
            Mode::SpawnBurst(n) => Release::Spawn(n as usize, yields, self.case.local),
            Mode::Sleepers(n) => {
                let t = du(self.case.t_ms as u128 * 1_000_000);
                for i in 0..n as usize {
                    let h = self.spawn(async move {
                        sleep(t).await;
                        after_wake(i).await;
                    });
                    current().join(h);
                }
                Release::None
            }
        };
        if self.case.timer_trigger {
            let rel = match &self.release {
                // spawning local tasks is only legal from a synchronous callback: keep that mode message-triggered
                Release::Spawn(_, _, true) => Release::None,
                r => r.clone(),
            };
            if !matches!(rel, Release::None) {
                let t = du(self.case.t_ms as u128 * 1_000_000);
                let how = self.case.shutdown;
                current().join(tokio::spawn(async move {
                    sleep(t).await;
                    net::log("trigger", 0, 0);
                    do_release(&rel);
                    request_shutdown(how);
                }));
                self.release = Release::None;
            }
        }
        // (tasks cannot be spawned from an element's hook: it runs outside the module's runtime context)
        if self.case.via_element && !self.case.timer_trigger && !matches!(self.release, Release::Spawn(..)) {
            let r = std::mem::replace(&mut self.release, Release::None);
            ELEMENT_RELEASE.with(|slot| *slot.borrow_mut() = Some(r));
        }
    }
    fn handle_message(&mut self, msg: Message) {
        if msg.header().id == 1 {
            net::log("trigger", 0, 0);
            let r = std::mem::replace(&mut self.release, Release::None);
            do_release(&r);
            request_shutdown(self.case.shutdown);
        } else {
            net::log("later", 0, 0);
        }
    }
}

fn expected_logs(case: &Case) -> usize {
    match case.mode {
        Mode::Fanout(n, _) | Mode::Chain(n) | Mode::BulkRecv(n) | Mode::SpawnBurst(n) | Mode::Sleepers(n) => n as usize,
        Mode::JoinChain(n) => (n as usize).max(1),
    }
}

/// Known finding `local-set-tasks-exceed-tick-budget`: tasks created with spawn_local live in the module's LocalSet,
/// which is ticked once per event (at most 61 task polls, before the runtime's own tasks run). Local tasks are late
/// when more than 61 of them are runnable in one event, when one yields (or exhausts the coop budget of 128
/// operations), or when they are woken by a task of the runtime (which runs after the tick).
fn in_known_region(case: &Case) -> bool {
    if !case.local {
        return false;
    }
    let many = match case.mode {
        Mode::BulkRecv(k) => k > 128,
        _ => expected_logs(case) > 61,
    };
    let woken_by_runtime_task = case.timer_trigger && !matches!(case.mode, Mode::SpawnBurst(_));
    many || case.yields >= 1 || woken_by_runtime_task
}

pub fn run_case(case: &Case, probe: bool) -> Result<(bool, Vec<&'static str>, bool), Failure> {
    if in_known_region(case) && !probe {
        return Ok((false, vec!["excluded:spawn_local-beyond-one-tick"], true));
    }
    let t = case.t_ms as u128 * 1_000_000;
    let t2 = t + (case.gap_ms.max(1) as u128) * 1_000_000;
    net::log_clear();
    let mut sim = Sim::new(());
    let timer_trigger = case.timer_trigger && !(matches!(case.mode, Mode::SpawnBurst(_)) && case.local);
    let element = case.via_element && !timer_trigger && !matches!(case.mode, Mode::SpawnBurst(_));
    let shutdown = if element || matches!(case.mode, Mode::Sleepers(_)) { None } else { case.shutdown };
    ELEMENT_RELEASE.with(|slot| *slot.borrow_mut() = None);
    sim.node(
        "w",
        W {
            case: Case {
                timer_trigger,
                shutdown,
                ..case.clone()
            },
            release: Release::None,
            started: false,
        },
    );
    let w = sim.get(&ObjectPath::from("w")).unwrap();
    let want = expected_logs(case);
    let budget = 2_000 + 4 * want;
    let mut rt = Builder::seeded(13).quiet().max_itr(budget).build(sim.freeze());
    if !timer_trigger {
        rt.handle_message_on(w.clone(), Message::default().id(1), st(t));
    }
    rt.handle_message_on(w.clone(), Message::default().id(2), st(t2));
    drop(w);
    let res = rt.run();
    let log = net::log_take();
    let err: Option<String> = res.as_ref().err().map(|e| format!("{e}"));
    drop(res);
    let sig_late = if case.local { "local-set-tasks-exceed-tick-budget" } else { "work-finished-after-its-instant" };
    let woke: Vec<_> = log.iter().filter(|r| r.kind == "woke").collect();
    for r in &woke {
        vensure!(
            r.now == t,
            sig_late,
            "task {} ran its code after the await at {} ns; the condition it awaited became true at {t} ns ({:?}, {} of {want} tasks ran at {t} ns)",
            r.a,
            r.now,
            case,
            woke.iter().filter(|x| x.now == t).count()
        );
    }
    vensure!(
        woke.len() == want,
        if woke.len() < want { sig_late } else { "task-ran-twice" },
        "{} tasks ran after being released at {t} ns, expected {want} ({:?})",
        woke.len(),
        case
    );
    let mut ids: Vec<i64> = woke.iter().map(|r| r.a).collect();
    ids.sort_unstable();
    ids.dedup();
    vensure!(ids.len() == want, "task-ran-twice", "some task logged twice");
    if let Some(e) = err {
        vfail!(sig_late, "run() returned an error although every task was released: {e}");
    }
    // a module that shut itself down for good does not see the later event; one that restarted in between does
    let want_later = if shutdown == Some(false) { 0 } else { 1 };
    vensure!(
        log.iter().filter(|r| r.kind == "later").count() == want_later,
        "later-event-missing",
        "the unrelated later event was handled {} times, expected {want_later}",
        log.iter().filter(|r| r.kind == "later").count()
    );
    let mut labels = Vec::new();
    let n = want;
    if n > 61 {
        labels.push("more-than-61-runnable-or-chained");
    }
    if n >= 1000 {
        labels.push(">=1000");
    }
    if case.yields >= 1 {
        labels.push("yield-inside-task");
    }
    if matches!(case.mode, Mode::BulkRecv(k) if k > 128) {
        labels.push("bulk-recv-beyond-coop-budget");
    }
    if matches!(case.mode, Mode::Chain(_) | Mode::JoinChain(_)) {
        labels.push("wake-up-chain");
    }
    if case.local {
        labels.push("spawn_local");
    }
    if timer_trigger {
        labels.push("timer-trigger");
    }
    if element {
        labels.push("released-by-consuming-processing-element");
    }
    if shutdown.is_some() {
        labels.push("shutdown-requested-in-the-releasing-event");
    }
    let nt = n > 61 || case.yields >= 1;
    Ok((nt, labels, false))
}

#[derive(Clone, Debug, Serialize, Deserialize)]
pub struct Wrapped {
    pub case: Case,
    #[serde(default)]
    pub probe_known: bool,
    /// instead of `case`: a timer program of C05's generator (tasks awaiting sleeps, timeouts, intervals and selects
    /// with cancelled and re-armed timers); "the awaited condition became true" is then the deadline, and the code
    /// after the await must log exactly that instant
    #[serde(default)]
    pub timers: Option<crate::c05::Case>,
}

impl Prop for C06 {
    const ID: &'static str = "C06";
    type Case = Wrapped;

    fn rule() -> String {
        "proptest: a module whose tasks are parked on Notify / mpsc / oneshot / Semaphore (fan-out of n tasks), on a oneshot chain or a JoinHandle \
         chain of depth d, on a bulk receive of k items in one task, or are spawned as a burst by the trigger, or all sleep until the same instant; n, d, k in 1..300 (quick) / 1..5000 \
         (thorough) with 59..64 and 120..130 over-sampled; 0..3 yield_now() calls inside each task; trigger = handle_message, a consuming processing element (the handler is skipped) or a timer-woken task \
         at T, which in 30% of the cases also requests the module's shutdown (with or without restart) in that very event; an unrelated later event at T2 > T; tokio::spawn or (from synchronous callbacks only) spawn_local. One case in six is a timer program of C05's generator instead (sleeps, timeouts, intervals, selects with cancelled and re-armed timers; the code after each await must log exactly the deadline). Oracle: every task's log entry \
         after its await carries exactly T, exactly one per task, run() is Ok (all joined), the later event is handled once. Non-trivial iff \
         more than 61 tasks/links are involved or a task yields. Excluded (known finding): spawn_local tasks with more than 61 runnable at once, a yield, a bulk receive > 128, or a \
         release performed by a runtime task."
            .into()
    }
    fn assumptions() -> Vec<String> {
        vec!["spawn_local is only used from synchronous callbacks (tokio rejects it inside runtime tasks)".into()]
    }
    fn plan(tier: Tier) -> Plan {
        Plan {
            shards: tier.pick(4, 16),
            cases_per_shard: tier.pick(2_500, 24_000),
            watchdog: StdDuration::from_secs(tier.pick(300, 3600)),
        }
    }
    fn strategy(tier: Tier) -> BoxedStrategy<Wrapped> {
        let big = tier.pick(300u16, 5000u16);
        let n = prop_oneof![3 => 1u16..20, 3 => 59u16..=64, 2 => 120u16..=130, 2 => 1u16..=big];
        let prim = prop_oneof![Just(Prim::Notify), Just(Prim::Mpsc), Just(Prim::Oneshot), Just(Prim::Semaphore)];
        let mode = prop_oneof![
            4 => (n.clone(), prim).prop_map(|(n, p)| Mode::Fanout(n, p)),
            2 => n.clone().prop_map(Mode::Chain),
            1 => n.clone().prop_map(Mode::JoinChain),
            2 => prop_oneof![n.clone(), 100u16..1000].prop_map(Mode::BulkRecv),
            2 => n.clone().prop_map(Mode::SpawnBurst),
            2 => n.prop_map(Mode::Sleepers),
        ];
        let base = (
            mode,
            prop_oneof![2 => Just(0u8), 1 => 1u8..4],
            any::<bool>(),
            proptest::bool::weighted(0.2),
            0u16..50,
            1u16..5000,
            proptest::bool::weighted(0.3),
            proptest::option::weighted(0.3, any::<bool>()),
        )
            .prop_map(|(mode, yields, timer_trigger, local, t_ms, gap_ms, via_element, shutdown)| Wrapped {
                case: Case {
                    mode,
                    yields,
                    timer_trigger,
                    local,
                    t_ms,
                    gap_ms,
                    via_element,
                    shutdown,
                },
                probe_known: false,
                timers: None,
            });
        let base = base.boxed();
        // one case in six is a timer program
        let timers = <crate::c05::C05 as Prop>::strategy(tier).prop_map(|t| Wrapped {
            case: Case {
                mode: Mode::Sleepers(1),
                yields: 0,
                timer_trigger: false,
                local: false,
                t_ms: 0,
                gap_ms: 1,
                via_element: false,
                shutdown: None,
            },
            probe_known: false,
            timers: Some(t),
        });
        prop_oneof![5 => base, 1 => timers].boxed()
    }
    fn run(w: &Wrapped) -> Outcome {
        if let Some(t) = &w.timers {
            return match crate::c05::run_case(t) {
                Ok((_, _)) => Outcome::ok(true, vec!["timer-program"]),
                // a task that resumes after its deadline (or never) is this property's failure as well
                Err(f) => Outcome::failed(Failure::new(
                    if f.sig.starts_with("timer-") { "work-finished-after-its-instant" } else { f.sig.as_str() },
                    format!("timer program (oracle of C05, {}): {}", f.sig, f.msg),
                )),
            };
        }
        match run_case(&w.case, w.probe_known) {
            Ok((nt, labels, excluded)) => {
                let mut o = Outcome::ok(nt, labels);
                o.excluded = excluded;
                o
            }
            Err(f) => Outcome::failed(f),
        }
    }
    fn builtin_cases() -> Vec<(String, Wrapped)> {
        vec![(
            "known-62-local-tasks-released-in-one-handler".into(),
            Wrapped {
                case: Case {
                    mode: Mode::Fanout(62, Prim::Notify),
                    yields: 0,
                    timer_trigger: false,
                    local: true,
                    t_ms: 5,
                    gap_ms: 1000,
                    via_element: false,
                    shutdown: None,
                },
                probe_known: true,
                timers: None,
            },
        )]
    }
}
