//! Engine 1: proptest driven from a binary, sharded over worker processes.
//!
//! A property implements [`Prop`]; the driver generates cases with the
//! property's strategy, runs the interpreter + oracle on each, shrinks a failure,
//! writes it as a replay file, re-executes it once outside proptest, and reports.

use proptest::strategy::{BoxedStrategy, Strategy};
use proptest::test_runner::{Config, RngSeed, TestCaseError, TestError, TestRunner};
use serde::de::DeserializeOwned;
use serde::{Deserialize, Serialize};
use serde_json::{json, Value};
use std::cell::RefCell;
use std::collections::{BTreeMap, BTreeSet};
use std::fmt::Debug;
use std::hash::{Hash, Hasher};
use std::io::Write;
use std::path::{Path, PathBuf};
use std::process::{Command, Stdio};
use std::time::{Duration, Instant};

#[derive(Clone, Copy, Debug, PartialEq, Eq)]
pub enum Tier {
    Quick,
    Thorough,
}

impl Tier {
    pub fn name(self) -> &'static str {
        match self {
            Tier::Quick => "quick",
            Tier::Thorough => "thorough",
        }
    }
    pub fn pick<T>(self, quick: T, thorough: T) -> T {
        match self {
            Tier::Quick => quick,
            Tier::Thorough => thorough,
        }
    }
}

/// A classified failure of one case.
#[derive(Clone, Debug, Serialize, Deserialize)]
pub struct Failure {
    /// Root-cause classifier computed by the oracle (used for known findings).
    pub sig: String,
    pub msg: String,
}

impl Failure {
    pub fn new(sig: impl Into<String>, msg: impl Into<String>) -> Self {
        Failure {
            sig: sig.into(),
            msg: msg.into(),
        }
    }
}

/// What running one case produced.
#[derive(Clone, Debug, Default)]
pub struct Outcome {
    pub fail: Option<Failure>,
    pub nontrivial: bool,
    pub labels: Vec<&'static str>,
    /// The case lies in a region excluded because of a known finding (not executed).
    pub excluded: bool,
}

impl Outcome {
    pub fn ok(nontrivial: bool, labels: Vec<&'static str>) -> Self {
        Outcome {
            fail: None,
            nontrivial,
            labels,
            excluded: false,
        }
    }
    pub fn failed(f: Failure) -> Self {
        Outcome {
            fail: Some(f),
            nontrivial: true,
            labels: vec![],
            excluded: false,
        }
    }
}

#[macro_export]
macro_rules! vfail {
    ($sig:expr, $($arg:tt)*) => {
        return Err($crate::engine::Failure::new($sig, format!($($arg)*)))
    };
}

#[macro_export]
macro_rules! vensure {
    ($cond:expr, $sig:expr, $($arg:tt)*) => {
        if !($cond) {
            return Err($crate::engine::Failure::new($sig, format!($($arg)*)));
        }
    };
}

pub struct Plan {
    pub shards: usize,
    pub cases_per_shard: u32,
    pub watchdog: Duration,
}

pub trait Prop: 'static {
    const ID: &'static str;
    const LEVEL: &'static str = "exploration";
    type Case: Clone + Debug + Serialize + DeserializeOwned + 'static;

    fn rule() -> String;
    fn assumptions() -> Vec<String>;
    fn plan(tier: Tier) -> Plan;
    fn strategy(tier: Tier) -> BoxedStrategy<Self::Case>;
    /// Runs the case against the real code and the oracle. Must not leak state.
    fn run(case: &Self::Case) -> Outcome;
    /// Extra stages (fuzz campaigns, cross-process comparisons) run by the parent.
    fn extra(tier: Tier, seed: u64, ev: &mut ExtraEvidence) -> Vec<Violation> {
        if tier == Tier::Thorough {
            fuzz_extra(Self::ID, seed, ev)
        } else {
            Vec::new()
        }
    }
    /// A worker killed by a signal while executing a case counts as a violation (memory safety is the property).
    fn signal_is_violation() -> bool {
        false
    }
    /// Cases executed by every tier before generation in worker 0 (built-in regressions / probes).
    fn builtin_cases() -> Vec<(String, Self::Case)> {
        Vec::new()
    }
}

#[derive(Default)]
pub struct ExtraEvidence {
    pub fields: BTreeMap<String, Value>,
    pub evaluations: u64,
}

#[derive(Clone, Debug, Serialize, Deserialize)]
pub struct Violation {
    pub sig: String,
    pub msg: String,
    pub replay: String,
}

// ------------------------------------------------------------------------------------------
// panic capture

thread_local! {
    static LAST_PANIC: RefCell<Option<(String, String)>> = const { RefCell::new(None) };
}

/// Installs a panic hook that is silent and remembers message + location.
pub fn install_quiet_panic_hook() {
    std::panic::set_hook(Box::new(|info| {
        let msg = if let Some(s) = info.payload().downcast_ref::<&str>() {
            (*s).to_string()
        } else if let Some(s) = info.payload().downcast_ref::<String>() {
            s.clone()
        } else {
            "<non-string panic payload>".to_string()
        };
        let loc = info
            .location()
            .map(|l| format!("{}:{}", l.file(), l.line()))
            .unwrap_or_default();
        if std::env::var_os("VERIF_VERBOSE_PANICS").is_some() {
            eprintln!("[panic] {msg} @ {loc}");
        }
        LAST_PANIC.with(|p| *p.borrow_mut() = Some((msg, loc)));
    }));
}

pub fn take_last_panic() -> Option<(String, String)> {
    LAST_PANIC.with(|p| p.borrow_mut().take())
}

/// Runs `f`, turning a panic into `Err((message, location))`.
pub fn catch<R>(f: impl FnOnce() -> R) -> Result<R, (String, String)> {
    let _ = take_last_panic();
    match std::panic::catch_unwind(std::panic::AssertUnwindSafe(f)) {
        Ok(r) => Ok(r),
        Err(payload) => {
            let fallback = if let Some(s) = payload.downcast_ref::<&str>() {
                (*s).to_string()
            } else if let Some(s) = payload.downcast_ref::<String>() {
                s.clone()
            } else {
                "<non-string panic payload>".to_string()
            };
            Err(take_last_panic().unwrap_or((fallback, String::new())))
        }
    }
}

// ------------------------------------------------------------------------------------------
// paths and known findings

pub fn verif_root() -> PathBuf {
    std::env::var_os("VERIF_ROOT")
        .map(PathBuf::from)
        .unwrap_or_else(|| PathBuf::from("/verif"))
}

#[derive(Clone, Debug, Deserialize)]
pub struct KnownFinding {
    pub property: String,
    pub status: String,
    pub signature: String,
    pub what: String,
    #[serde(default)]
    pub commit: Option<String>,
}

pub fn known_findings(id: &str) -> Vec<KnownFinding> {
    let path = verif_root().join("known_findings.json");
    let Ok(text) = std::fs::read_to_string(path) else {
        return Vec::new();
    };
    let all: Vec<KnownFinding> = serde_json::from_str(&text).expect("known_findings.json is malformed");
    all.into_iter()
        .filter(|k| k.property == id && k.status == "known")
        .collect()
}

fn fingerprint(v: &impl Serialize) -> u64 {
    let s = serde_json::to_string(v).expect("case serialises");
    let mut h = std::collections::hash_map::DefaultHasher::new();
    s.hash(&mut h);
    h.finish()
}

fn mix(seed: u64, shard: u64) -> u64 {
    // splitmix64 over (seed, shard): distinct streams per shard, pure function of the inputs
    let mut z = seed
        .wrapping_mul(0x9E37_79B9_7F4A_7C15)
        .wrapping_add(shard.wrapping_mul(0xBF58_476D_1CE4_E5B9))
        .wrapping_add(0x94D0_49BB_1331_11EB);
    z = (z ^ (z >> 30)).wrapping_mul(0xBF58_476D_1CE4_E5B9);
    z = (z ^ (z >> 27)).wrapping_mul(0x94D0_49BB_1331_11EB);
    z ^ (z >> 31)
}

// ------------------------------------------------------------------------------------------
// worker

#[derive(Serialize, Deserialize, Default)]
struct Part {
    evaluations: u64,
    excluded: u64,
    known_hits: BTreeMap<String, u64>,
    nontrivial: Vec<u64>,
    labels: BTreeMap<String, u64>,
    samples: Vec<Value>,
    violations: Vec<Violation>,
    builtin_run: u64,
    wall_s: f64,
}

struct Stats {
    part: Part,
    nontrivial: BTreeSet<u64>,
    frozen: bool,
}

pub fn run_one<P: Prop>(case: &P::Case) -> Outcome {
    // des installs (and afterwards removes) its own panic hook around every simulation run
    install_quiet_panic_hook();
    match catch(|| P::run(case)) {
        Ok(o) => o,
        Err((msg, loc)) => Outcome::failed(Failure::new(
            "harness-level-panic",
            format!("panic escaped the case interpreter: {msg} @ {loc}"),
        )),
    }
}

/// Runs one case in a child process (`--replay`) and maps its verdict back to an outcome.
fn eval_in_child<P: Prop>(case: &P::Case, tier: Tier, seed: u64, file: &Path) -> Outcome {
    write_json(file, case);
    let child = Command::new(std::env::current_exe().expect("exe"))
        .arg(P::ID)
        .arg(tier.name())
        .arg("--replay")
        .arg(file)
        .env("VERIF_SEED", seed.to_string())
        .stdin(Stdio::null())
        .stdout(Stdio::piped())
        .stderr(Stdio::null())
        .spawn()
        .and_then(|mut c| {
            // a candidate that does not come back within 30 s is abandoned (treated as "does not fail")
            let t0 = Instant::now();
            loop {
                if c.try_wait()?.is_some() {
                    return c.wait_with_output();
                }
                if t0.elapsed() > Duration::from_secs(30) {
                    let _ = c.kill();
                    let _ = c.wait();
                    return Err(std::io::Error::other("timeout"));
                }
                std::thread::sleep(Duration::from_millis(2));
            }
        });
    let _ = std::fs::remove_file(file);
    match child {
        Ok(o) if o.status.code() == Some(1) => {
            let text = String::from_utf8_lossy(&o.stdout);
            let sig = text.lines().find_map(|l| l.trim().strip_prefix("signature: ")).unwrap_or("unknown").to_string();
            let msg = text.lines().find_map(|l| l.trim().strip_prefix("detail: ")).unwrap_or("").to_string();
            Outcome::failed(Failure::new(sig, msg))
        }
        Ok(o) if o.status.code() == Some(0) => Outcome::default(),
        // killed by a signal / other exit code: for the memory-safety properties that is the failure itself
        Ok(_) if P::signal_is_violation() => Outcome::failed(Failure::new("worker-killed-by-signal", "the case kills the process")),
        _ => Outcome::default(),
    }
}

fn replay_dir(id: &str) -> PathBuf {
    let d = verif_root().join("replays").join(id);
    let _ = std::fs::create_dir_all(&d);
    d
}

fn write_json(path: &Path, v: &impl Serialize) {
    let tmp = path.with_extension("tmp");
    let mut f = std::fs::File::create(&tmp).expect("create file");
    f.write_all(serde_json::to_string_pretty(v).unwrap().as_bytes())
        .unwrap();
    f.write_all(b"\n").unwrap();
    drop(f);
    std::fs::rename(tmp, path).unwrap();
}

/// Memory-safety properties: a defect may make the code under test allocate without end. Cap the address space of the
/// process that executes cases, so that such a case ends in a crash of this worker (reported with its replay file)
/// instead of exhausting the machine.
pub fn cap_address_space<P: Prop>() {
    if P::signal_is_violation() {
        let lim = libc::rlimit {
            rlim_cur: 8 << 30,
            rlim_max: 8 << 30,
        };
        // SAFETY: plain syscall on this process
        unsafe {
            libc::setrlimit(libc::RLIMIT_AS, &lim);
        }
    }
}

fn worker<P: Prop>(tier: Tier, seed: u64, shard: usize, shards: usize, cases: u32) -> i32 {
    install_quiet_panic_hook();
    cap_address_space::<P>();
    let start = Instant::now();
    let known: BTreeSet<String> = known_findings(P::ID).into_iter().map(|k| k.signature).collect();
    let dir = replay_dir(P::ID);
    let current = dir.join(format!("current-{shard}.json"));
    let stats = RefCell::new(Stats {
        part: Part::default(),
        nontrivial: BTreeSet::new(),
        frozen: false,
    });

    let record = |case: &P::Case, out: &Outcome, stats: &mut Stats| {
        if stats.frozen {
            return;
        }
        stats.part.evaluations += 1;
        if out.excluded {
            stats.part.excluded += 1;
        }
        for l in &out.labels {
            *stats.part.labels.entry((*l).to_string()).or_default() += 1;
        }
        if out.nontrivial {
            let fp = fingerprint(case);
            if stats.nontrivial.insert(fp) && stats.part.samples.len() < 3 {
                stats.part.samples.push(serde_json::to_value(case).unwrap());
            }
        }
    };

    // built-in regression / probe cases: shard 0 only
    if shard == 0 {
        for (name, case) in P::builtin_cases() {
            write_json(&current, &case);
            let out = run_one::<P>(&case);
            let mut st = stats.borrow_mut();
            st.part.builtin_run += 1;
            record(&case, &out, &mut st);
            if let Some(f) = out.fail {
                if known.contains(&f.sig) {
                    *st.part.known_hits.entry(f.sig.clone()).or_default() += 1;
                } else {
                    let path = dir.join(format!("builtin-{name}.json"));
                    write_json(&path, &case);
                    st.part.violations.push(Violation {
                        sig: f.sig,
                        msg: f.msg,
                        replay: path.display().to_string(),
                    });
                }
            }
        }
        // regress/<ID>/*.json
        let rdir = verif_root().join("regress").join(P::ID);
        let mut files: Vec<PathBuf> = std::fs::read_dir(&rdir)
            .map(|it| it.filter_map(|e| e.ok().map(|e| e.path())).collect())
            .unwrap_or_default();
        files.sort();
        for file in files {
            if file.extension().and_then(|e| e.to_str()) != Some("json") {
                continue;
            }
            let text = std::fs::read_to_string(&file).unwrap();
            let case: P::Case = match serde_json::from_str(&text) {
                Ok(c) => c,
                Err(e) => {
                    eprintln!("[{}] regress file {} does not parse: {e}", P::ID, file.display());
                    return 2;
                }
            };
            write_json(&current, &case);
            let out = run_one::<P>(&case);
            let mut st = stats.borrow_mut();
            st.part.builtin_run += 1;
            record(&case, &out, &mut st);
            if let Some(f) = out.fail {
                if known.contains(&f.sig) {
                    *st.part.known_hits.entry(f.sig.clone()).or_default() += 1;
                } else {
                    st.part.violations.push(Violation {
                        sig: f.sig,
                        msg: f.msg,
                        replay: file.display().to_string(),
                    });
                }
            }
        }
    }

    if stats.borrow().part.violations.is_empty() && cases > 0 {
        let config = Config {
            cases,
            rng_seed: RngSeed::Fixed(mix(seed, shard as u64 + 1)),
            failure_persistence: None,
            max_shrink_iters: 4096,
            max_global_rejects: 65536,
            ..Config::default()
        };
        let mut runner = TestRunner::new(config);
        let strategy = P::strategy(tier);
        let result = runner.run(&strategy, |case| {
            if !stats.borrow().frozen {
                write_json(&current, &case);
            }
            // After the first failure proptest shrinks. Candidates are then evaluated in a fresh process each: a
            // failing simulation may leave process-global state behind that would make every later case fail.
            let shrinking = stats.borrow().frozen;
            let out = if shrinking {
                eval_in_child::<P>(&case, tier, seed, &dir.join(format!("shrink-{shard}.json")))
            } else {
                run_one::<P>(&case)
            };
            let mut st = stats.borrow_mut();
            record(&case, &out, &mut st);
            match out.fail {
                None => Ok(()),
                Some(f) => {
                    if !st.frozen && known.contains(&f.sig) {
                        *st.part.known_hits.entry(f.sig).or_default() += 1;
                        return Ok(());
                    }
                    if known.contains(&f.sig) {
                        // while shrinking a new failure do not slide into a known one
                        return Ok(());
                    }
                    st.frozen = true;
                    Err(TestCaseError::fail(format!("{}: {}", f.sig, f.msg)))
                }
            }
        });
        match result {
            Ok(()) => {}
            Err(TestError::Fail(_, minimal)) => {
                let path = dir.join(format!("{:016x}.json", fingerprint(&minimal)));
                write_json(&path, &minimal);
                // Confirm outside proptest. First in a fresh process (no state left behind by earlier cases of this
                // worker: des keeps process-global simulation state), then, if that does not reproduce, in this one.
                let child = Command::new(std::env::current_exe().expect("exe"))
                    .arg(P::ID)
                    .arg(tier.name())
                    .arg("--replay")
                    .arg(&path)
                    .env("VERIF_SEED", seed.to_string())
                    .stdin(Stdio::null())
                    .stderr(Stdio::null())
                    .output();
                let mut confirmed: Option<Failure> = None;
                if let Ok(o) = &child {
                    let text = String::from_utf8_lossy(&o.stdout);
                    if o.status.code() == Some(1) {
                        let sig = text.lines().find_map(|l| l.trim().strip_prefix("signature: ")).unwrap_or("unknown").to_string();
                        let msg = text.lines().find_map(|l| l.trim().strip_prefix("detail: ")).unwrap_or("").to_string();
                        confirmed = Some(Failure::new(sig, msg));
                    }
                }
                if confirmed.is_none() {
                    confirmed = run_one::<P>(&minimal).fail.map(|f| Failure::new(f.sig, format!("{} (reproduces only after earlier cases of the same worker)", f.msg)));
                }
                let mut st = stats.borrow_mut();
                match confirmed {
                    Some(f) if !known.contains(&f.sig) => st.part.violations.push(Violation {
                        sig: f.sig,
                        msg: f.msg,
                        replay: path.display().to_string(),
                    }),
                    _ => {
                        eprintln!(
                            "[{}] shard {shard}: shrunk case {} did not reproduce outside proptest (flaky oracle?)",
                            P::ID,
                            path.display()
                        );
                        drop(st);
                        return 2;
                    }
                }
            }
            Err(TestError::Abort(reason)) => {
                eprintln!("[{}] shard {shard}: proptest aborted: {reason}", P::ID);
                return 2;
            }
        }
    }
    let mut st = stats.into_inner();
    st.part.nontrivial = st.nontrivial.into_iter().collect();
    st.part.wall_s = start.elapsed().as_secs_f64();
    write_json(&dir.join(format!("part-{shard}-of-{shards}.json")), &st.part);
    let _ = std::fs::remove_file(&current);
    0
}

// ------------------------------------------------------------------------------------------
// parent

pub struct Args {
    pub tier: Tier,
    pub seed: u64,
    pub worker: Option<(usize, usize, u32)>,
    pub replay: Option<PathBuf>,
}

pub fn seed_from_env() -> u64 {
    std::env::var("VERIF_SEED")
        .ok()
        .and_then(|s| s.trim().parse::<i128>().ok())
        .map(|v| v as u64)
        .unwrap_or(0)
}

pub fn drive<P: Prop>(args: &Args) -> i32 {
    if let Some(path) = &args.replay {
        return replay::<P>(path);
    }
    if let Some((shard, shards, cases)) = args.worker {
        return worker::<P>(args.tier, args.seed, shard, shards, cases);
    }
    let start = Instant::now();
    let plan = P::plan(args.tier);
    let dir = replay_dir(P::ID);
    // clear leftovers of earlier runs
    if let Ok(rd) = std::fs::read_dir(&dir) {
        for e in rd.flatten() {
            let _ = std::fs::remove_file(e.path());
        }
    }
    let exe = std::env::current_exe().expect("current exe");
    let mut children = Vec::new();
    for shard in 0..plan.shards {
        let child = Command::new(&exe)
            .arg(P::ID)
            .arg(args.tier.name())
            .arg("--worker")
            .arg(format!("{shard}/{}/{}", plan.shards, plan.cases_per_shard))
            .env("VERIF_SEED", args.seed.to_string())
            .stdin(Stdio::null())
            .stdout(Stdio::null())
            .stderr(if std::env::var_os("VERIF_VERBOSE").is_some() {
                Stdio::inherit()
            } else {
                // panic reports of des and harness diagnostics: kept for inspection, not shown
                std::fs::File::create(dir.join(format!("worker-{shard}.stderr")))
                    .map(Stdio::from)
                    .unwrap_or_else(|_| Stdio::null())
            })
            .spawn()
            .expect("spawn worker");
        children.push((shard, child, None::<std::process::ExitStatus>));
    }
    let deadline = Instant::now() + plan.watchdog;
    let mut timed_out = false;
    loop {
        let mut running = 0;
        for (_, child, status) in children.iter_mut() {
            if status.is_none() {
                match child.try_wait().expect("wait") {
                    Some(s) => *status = Some(s),
                    None => running += 1,
                }
            }
        }
        if running == 0 {
            break;
        }
        if Instant::now() > deadline {
            timed_out = true;
            for (_, child, status) in children.iter_mut() {
                if status.is_none() {
                    let _ = child.kill();
                    let _ = child.wait();
                }
            }
            break;
        }
        std::thread::sleep(Duration::from_millis(20));
    }

    let mut inconclusive = Vec::new();
    let mut violations: Vec<Violation> = Vec::new();
    if timed_out {
        inconclusive.push(format!("watchdog of {:?} expired", plan.watchdog));
    }
    let mut total = Part::default();
    let mut nontrivial: BTreeSet<u64> = BTreeSet::new();
    let mut shard_wall = Vec::new();
    for (shard, _, status) in &children {
        let part_path = dir.join(format!("part-{shard}-of-{}.json", plan.shards));
        match status {
            Some(s) if s.success() => {}
            Some(s) => {
                use std::os::unix::process::ExitStatusExt;
                let current = dir.join(format!("current-{shard}.json"));
                if let (Some(sig), true) = (s.signal(), P::signal_is_violation()) {
                    let keep = dir.join(format!("crash-shard{shard}-signal{sig}.json"));
                    let _ = std::fs::copy(&current, &keep);
                    violations.push(Violation {
                        sig: format!("worker-killed-by-signal-{sig}"),
                        msg: "worker process died by signal while executing the case".into(),
                        replay: keep.display().to_string(),
                    });
                } else {
                    let tail = std::fs::read_to_string(dir.join(format!("worker-{shard}.stderr")))
                        .map(|t| t.lines().rev().take(3).collect::<Vec<_>>().join(" | "))
                        .unwrap_or_default();
                    inconclusive.push(format!("worker {shard} ended with {s}: {tail}"));
                }
                continue;
            }
            None => continue,
        }
        let Ok(text) = std::fs::read_to_string(&part_path) else {
            inconclusive.push(format!("worker {shard} left no result file"));
            continue;
        };
        let part: Part = serde_json::from_str(&text).expect("part file parses");
        total.evaluations += part.evaluations;
        total.excluded += part.excluded;
        total.builtin_run += part.builtin_run;
        for (k, v) in part.known_hits {
            *total.known_hits.entry(k).or_default() += v;
        }
        for (k, v) in part.labels {
            *total.labels.entry(k).or_default() += v;
        }
        for s in part.samples {
            if total.samples.len() < 4 {
                total.samples.push(s);
            }
        }
        nontrivial.extend(part.nontrivial);
        violations.extend(part.violations);
        shard_wall.push(part.wall_s);
        let _ = std::fs::remove_file(part_path);
    }

    let mut extra = ExtraEvidence::default();
    if violations.is_empty() && inconclusive.is_empty() {
        violations.extend(P::extra(args.tier, args.seed, &mut extra));
    }

    // known findings: report the ones that still reproduce
    let known = known_findings(P::ID);
    for k in &known {
        if total.known_hits.get(&k.signature).copied().unwrap_or(0) > 0 {
            println!("KNOWN-FINDING: property={} {}", P::ID, k.what);
        }
    }

    let mut coverage = json!({
        "evaluations": total.evaluations + extra.evaluations,
        "distinct_nontrivial": nontrivial.len(),
        "rule": P::rule(),
        "samples": total.samples,
        "labels": total.labels,
        "generated_cases": total.evaluations - total.builtin_run,
        "regress_and_builtin_cases": total.builtin_run,
        "excluded_by_known_finding": total.excluded,
        "known_finding_hits": total.known_hits,
        "shards": plan.shards,
        "cases_per_shard": plan.cases_per_shard,
        "shard_wall_s": shard_wall,
        "inconclusive": inconclusive,
    });
    for (k, v) in extra.fields {
        coverage[k] = v;
    }
    let evidence = json!({
        "property_id": P::ID,
        "tier": args.tier.name(),
        "seed": args.seed as i64,
        "level": P::LEVEL,
        "coverage": coverage,
        "assumptions": P::assumptions(),
        "wall_s": start.elapsed().as_secs_f64(),
        "violations": violations.len(),
    });
    let evdir = verif_root().join("evidence");
    let _ = std::fs::create_dir_all(&evdir);
    write_json(&evdir.join(format!("{}.json", P::ID)), &evidence);

    for v in &violations {
        println!("VIOLATION property={} replay={}", P::ID, v.replay);
        println!("  signature: {}", v.sig);
        println!("  detail: {}", v.msg);
    }
    if !violations.is_empty() {
        return 1;
    }
    if !inconclusive.is_empty() {
        for i in &inconclusive {
            println!("INCONCLUSIVE property={} {}", P::ID, i);
        }
        return 2;
    }
    println!(
        "OK property={} tier={} seed={} evaluations={} distinct_nontrivial={} wall_s={:.1}",
        P::ID,
        args.tier.name(),
        args.seed,
        total.evaluations + extra.evaluations,
        nontrivial.len(),
        start.elapsed().as_secs_f64()
    );
    0
}

fn replay<P: Prop>(path: &Path) -> i32 {
    // For the memory-safety properties the failure may be the death of the process: replay in a child first.
    if P::signal_is_violation() && std::env::var_os("VERIF_REPLAY_CHILD").is_none() {
        let child = Command::new(std::env::current_exe().expect("exe"))
            .args(std::env::args().skip(1))
            .env("VERIF_REPLAY_CHILD", "1")
            .stdin(Stdio::null())
            .stderr(Stdio::null())
            .output();
        if let Ok(o) = child {
            use std::os::unix::process::ExitStatusExt;
            print!("{}", String::from_utf8_lossy(&o.stdout));
            if let Some(sig) = o.status.signal() {
                println!("VIOLATION property={} replay={}", P::ID, path.display());
                println!("  signature: worker-killed-by-signal-{sig}");
                println!("  detail: replaying the case kills the process (signal {sig})");
                return 1;
            }
            return o.status.code().unwrap_or(2);
        }
    }
    install_quiet_panic_hook();
    if std::env::var_os("VERIF_REPLAY_CHILD").is_some() {
        cap_address_space::<P>();
    }
    let text = match std::fs::read_to_string(path) {
        Ok(t) => t,
        Err(e) => {
            eprintln!("cannot read {}: {e}", path.display());
            return 2;
        }
    };
    let case: P::Case = match serde_json::from_str(&text) {
        Ok(c) => c,
        Err(e) => {
            eprintln!("{} is not a {} case: {e}", path.display(), P::ID);
            return 2;
        }
    };
    let out = run_one::<P>(&case);
    match out.fail {
        None => {
            println!("REPLAY property={} held (nontrivial={}, labels={:?})", P::ID, out.nontrivial, out.labels);
            0
        }
        Some(f) => {
            println!("VIOLATION property={} replay={}", P::ID, path.display());
            println!("  signature: {}", f.sig);
            println!("  detail: {}", f.msg);
            1
        }
    }
}

/// Helper to box a strategy.
pub fn boxed<S: Strategy + 'static>(s: S) -> BoxedStrategy<S::Value> {
    s.boxed()
}

/// Monotone index mapping (shrinks towards 0): maps a u16 onto `0..len`.
pub fn idx(i: u16, len: usize) -> usize {
    debug_assert!(len > 0);
    ((i as usize) * len) >> 16
}

/// Thorough-tier extra for C02/C10/C11: the same generators and oracles against `des` built without the `cqueue`
/// feature (BinaryHeap event set). Runs the separate crate /verif/harness-heap as a child.
#[cfg(not(vcheck_heap_backend))]
/// Engine 2 for every property: a coverage-guided libFuzzer campaign whose bytes are the random stream of the
/// property's own proptest strategy (target `prop_bytes`), same interpreter and oracle.
#[cfg(not(any(vcheck_heap_backend, vcheck_miri)))]
pub fn fuzz_extra(id: &str, seed: u64, ev: &mut ExtraEvidence) -> Vec<Violation> {
    crate::fuzz::prop_bytes(id, seed, ev)
}
#[cfg(any(vcheck_heap_backend, vcheck_miri))]
pub fn fuzz_extra(_id: &str, _seed: u64, _ev: &mut ExtraEvidence) -> Vec<Violation> {
    Vec::new()
}

/// Thorough tier of C15: the same histories, shorter, executed under Miri (`harness-miri`), 16 shards in parallel.
/// Miri's aliasing model (Stacked/Tree Borrows) is switched off: des-cqueue's allocator keeps raw pointers next to `&mut`
/// by design, which both experimental models reject at the first allocation; what remains checked is what C15 states:
/// every access in bounds of a live allocation, aligned and initialised, nothing freed twice.
pub fn miri_extra(seed: u64, ev: &mut ExtraEvidence) -> Vec<Violation> {
    const FLAGS: &str = "-Zmiri-disable-isolation -Zmiri-disable-stacked-borrows -Zmiri-ignore-leaks -Zmiri-permissive-provenance";
    const SHARDS: usize = 16;
    const CASES: usize = 10;
    const MAX_OPS: usize = 48;
    let dir = verif_root().join("harness-miri");
    let miri = |args: &[String]| {
        let mut c = Command::new("cargo");
        c.arg("+nightly").arg("miri").arg("run").arg("--quiet").arg("--").args(args);
        c.current_dir(&dir).env("MIRIFLAGS", FLAGS).env("CARGO_NET_OFFLINE", "true");
        c.stdin(Stdio::null()).stdout(Stdio::piped()).stderr(Stdio::piped());
        c
    };
    // build (and set up the Miri sysroot) once
    match miri(&["cases=0".to_string()]).output() {
        Ok(o) if o.status.success() => {}
        Ok(o) => {
            let err = String::from_utf8_lossy(&o.stderr);
            let tail: Vec<&str> = err.lines().rev().filter(|l| !l.trim().is_empty()).take(6).collect();
            ev.fields.insert("miri".into(), json!({"status": "not run: build under Miri failed", "detail": tail}));
            return Vec::new();
        }
        Err(e) => {
            ev.fields.insert("miri".into(), json!({"status": format!("not run: cargo miri unavailable: {e}")}));
            return Vec::new();
        }
    }
    let out_dir = verif_root().join("replays").join("C15");
    let _ = std::fs::create_dir_all(&out_dir);
    let mut children = Vec::new();
    for shard in 0..SHARDS {
        let case_file = out_dir.join(format!("miri-shard-{shard}.json"));
        let _ = std::fs::remove_file(&case_file);
        let args = vec![
            format!("seed={seed}"),
            format!("shard={}", shard + 1),
            format!("cases={CASES}"),
            format!("max_ops={MAX_OPS}"),
            format!("case_file={}", case_file.display()),
        ];
        if let Ok(child) = miri(&args).spawn() {
            children.push((shard, case_file, child));
        }
    }
    let started = children.len();
    let (mut cases, mut nontrivial, mut ops, mut inconclusive) = (0u64, 0u64, 0u64, 0usize);
    let mut violations = Vec::new();
    let deadline = Instant::now() + Duration::from_secs(1800);
    for (shard, case_file, mut child) in children {
        // drain the pipes in threads so that a chatty interpreter cannot block
        let mut so = child.stdout.take().expect("stdout");
        let mut se = child.stderr.take().expect("stderr");
        let t1 = std::thread::spawn(move || {
            let mut s = String::new();
            let _ = std::io::Read::read_to_string(&mut so, &mut s);
            s
        });
        let t2 = std::thread::spawn(move || {
            let mut s = String::new();
            let _ = std::io::Read::read_to_string(&mut se, &mut s);
            s
        });
        let status = loop {
            match child.try_wait() {
                Ok(Some(st)) => break Some(st),
                Ok(None) if Instant::now() > deadline => {
                    let _ = child.kill();
                    let _ = child.wait();
                    break None;
                }
                Ok(None) => std::thread::sleep(Duration::from_millis(200)),
                Err(_) => break None,
            }
        };
        let stdout = t1.join().unwrap_or_default();
        let stderr = t2.join().unwrap_or_default();
        let num = |line: &str, key: &str| -> u64 {
            line.split(' ').find_map(|t| t.strip_prefix(&format!("{key}="))).and_then(|v| v.parse().ok()).unwrap_or(0)
        };
        if let Some(l) = stdout.lines().find(|l| l.starts_with("MIRI-OK")) {
            cases += num(l, "cases");
            nontrivial += num(l, "nontrivial");
            ops += num(l, "ops");
            continue;
        }
        let ub = stderr.lines().find(|l| l.starts_with("error: Undefined Behavior") || l.starts_with("error: memory leaked"));
        let oracle = stdout.lines().find(|l| l.starts_with("MIRI-FAIL"));
        match (status, ub, oracle) {
            (Some(_), Some(l), _) | (Some(_), None, Some(l)) if case_file.exists() => {
                let replay = out_dir.join(format!("miri-{seed}-{shard}.json"));
                let _ = std::fs::rename(&case_file, &replay);
                let at = stderr.lines().skip_while(|x| !x.starts_with("error:")).find(|x| x.trim_start().starts_with("-->")).unwrap_or("").trim();
                violations.push(Violation {
                    sig: if ub.is_some() { "miri-undefined-behaviour".into() } else { "miri-oracle".into() },
                    msg: format!(
                        "{l} {at} (reproduce: cd {} && MIRIFLAGS='{FLAGS}' cargo +nightly miri run -- replay={})",
                        dir.display(),
                        replay.display()
                    ),
                    replay: replay.display().to_string(),
                });
            }
            _ => inconclusive += 1,
        }
    }
    ev.evaluations += cases;
    ev.fields.insert(
        "miri".into(),
        json!({
            "status": if started == 0 { "not run: could not start cargo miri" } else if inconclusive > 0 { "ran, some shards inconclusive (timeout or interpreter failure without a saved case)" } else { "ran" },
            "flags": FLAGS,
            "shards": started,
            "inconclusive_shards": inconclusive,
            "histories": cases,
            "histories_nontrivial": nontrivial,
            "queue_operations": ops,
            "max_ops_per_history": MAX_OPS,
            "violations": violations.len(),
            "what_it_decides": "every memory access of des-cqueue's unsafe code during these histories is inside a live allocation, aligned and initialised; no double free (aliasing models off, leaks ignored)",
        }),
    );
    violations
}

pub fn heap_backend_extra(id: &str, seed: u64, ev: &mut ExtraEvidence) -> Vec<Violation> {
    let dir = verif_root().join("harness-heap");
    let build = Command::new("cargo")
        .arg("build")
        .arg("--quiet")
        .current_dir(&dir)
        .env("CARGO_NET_OFFLINE", "true")
        .output();
    match build {
        Ok(o) if o.status.success() => {}
        Ok(o) => {
            let err = String::from_utf8_lossy(&o.stderr);
            let tail: Vec<&str> = err.lines().rev().take(5).collect();
            ev.fields.insert("binary_heap_backend".into(), json!({"status": "not run: build failed", "detail": tail}));
            return Vec::new();
        }
        Err(e) => {
            ev.fields.insert("binary_heap_backend".into(), json!({"status": format!("not run: {e}")}));
            return Vec::new();
        }
    }
    let root = verif_root().join("replays").join(format!("heap-backend-{id}"));
    let _ = std::fs::create_dir_all(&root);
    let _ = std::fs::copy(verif_root().join("known_findings.json"), root.join("known_findings.json"));
    let exe = dir.join("target").join("debug").join("vcheck-heap");
    let out = Command::new(&exe)
        .arg(id)
        .arg("thorough")
        .env("VERIF_ROOT", &root)
        .env("VERIF_SEED", seed.to_string())
        .output();
    let Ok(out) = out else {
        ev.fields.insert("binary_heap_backend".into(), json!({"status": "not run: cannot start vcheck-heap"}));
        return Vec::new();
    };
    let text = String::from_utf8_lossy(&out.stdout).to_string();
    let evals = std::fs::read_to_string(root.join("evidence").join(format!("{id}.json")))
        .ok()
        .and_then(|t| serde_json::from_str::<Value>(&t).ok())
        .and_then(|v| v["coverage"]["evaluations"].as_u64())
        .unwrap_or(0);
    ev.evaluations += evals;
    let mut violations = Vec::new();
    if out.status.code() == Some(1) {
        let mut lines = text.lines();
        while let Some(l) = lines.next() {
            if let Some(rest) = l.strip_prefix("VIOLATION ") {
                let replay = rest.split(' ').find_map(|t| t.strip_prefix("replay=")).unwrap_or("").to_string();
                let sig = lines.next().and_then(|l| l.trim().strip_prefix("signature: ")).unwrap_or("unknown").to_string();
                let msg = lines.next().and_then(|l| l.trim().strip_prefix("detail: ")).unwrap_or("").to_string();
                violations.push(Violation {
                    sig: format!("binary-heap-backend:{sig}"),
                    msg: format!("{msg} (BinaryHeap event set; replay with {} {id} quick --replay <file>)", exe.display()),
                    replay,
                });
            }
        }
    }
    ev.fields.insert(
        "binary_heap_backend".into(),
        json!({"status": if out.status.code() == Some(2) { "inconclusive" } else { "ran" }, "evaluations": evals, "violations": violations.len()}),
    );
    violations
}
