//! C18 – NDL elaboration is total and the built simulation matches the description.

use crate::engine::*;
use crate::{vensure, vfail};
use des::net::gate::Connection;
use des::net::ndl::{Def, Registry, RegistryCreatable};
use des::prelude::*;
use des_net_utils::ndl::error::ErrorKind;
use des_net_utils::ndl::transform;
use proptest::prelude::*;
use serde::{Deserialize, Serialize};
use std::cell::RefCell;
use std::collections::{BTreeMap, BTreeSet};
use std::time::Duration as StdDuration;

// ------------------------------------------------------------------------------------------
// the generator's own description of a network

#[derive(Clone, Debug, PartialEq)]
enum Card {
    Atom,
    Cluster(usize),
}
impl Card {
    fn size(&self) -> usize {
        match self {
            Card::Atom => 1,
            Card::Cluster(n) => *n,
        }
    }
    fn indices(&self) -> Vec<Option<usize>> {
        match self {
            Card::Atom => vec![None],
            Card::Cluster(n) => (0..*n).map(Some).collect(),
        }
    }
    fn decl(&self, name: &str) -> String {
        match self {
            Card::Atom => name.to_string(),
            Card::Cluster(n) => format!("{name}[{n}]"),
        }
    }
}

#[derive(Clone, Debug, PartialEq)]
enum TyRef {
    Plain(usize),
    /// generic type index, concrete argument type index
    Generic(usize, usize),
    /// the generic placeholder of the enclosing type
    Binding,
}

/// One side of a connection: optional submodule accessor (name, index) and the gate accessor (name, index).
#[derive(Clone, Debug, PartialEq)]
struct Endpoint {
    sub: Option<(String, Option<usize>)>,
    gate: (String, Option<usize>),
}
impl Endpoint {
    fn text(&self) -> String {
        let acc = |n: &str, i: &Option<usize>| match i {
            Some(i) => format!("{n}[{i}]"),
            None => n.to_string(),
        };
        match &self.sub {
            Some((s, i)) => format!("{}/{}", acc(s, i), acc(&self.gate.0, &self.gate.1)),
            None => acc(&self.gate.0, &self.gate.1),
        }
    }
}

#[derive(Clone, Debug)]
struct Conn {
    a: Endpoint,
    b: Endpoint,
    link: Option<usize>,
}

#[derive(Clone, Debug, Default)]
struct Ty {
    name: String,
    /// (binding name, bound type index)
    generic: Option<(String, usize)>,
    inherit: Option<usize>,
    gates: Vec<(String, Card)>,
    subs: Vec<(String, Card, TyRef)>,
    conns: Vec<Conn>,
}

#[derive(Clone, Debug)]
struct Link {
    name: String,
    latency_ms: u32,
    jitter_ms: u32,
    bitrate: u32,
    queuesize: Option<u32>,
}

#[derive(Clone, Debug)]
struct Doc {
    types: Vec<Ty>,
    links: Vec<Link>,
    entry: usize,
}

struct Choices<'a> {
    v: &'a [u16],
    i: usize,
}
impl Choices<'_> {
    fn next(&mut self, n: usize) -> usize {
        let x = self.v.get(self.i).copied().unwrap_or(0) as usize;
        self.i += 1;
        if n == 0 {
            0
        } else {
            x % n
        }
    }
    fn chance(&mut self, num: usize, den: usize) -> bool {
        self.next(den) < num
    }
}

impl Doc {
    /// all gates of a type including inherited ones
    fn all_gates(&self, t: usize) -> Vec<(String, Card)> {
        let mut v = self.types[t].inherit.map_or(Vec::new(), |p| self.all_gates(p));
        v.extend(self.types[t].gates.iter().cloned());
        v
    }
    fn all_subs(&self, t: usize) -> Vec<(String, Card, TyRef)> {
        let mut v = self.types[t].inherit.map_or(Vec::new(), |p| self.all_subs(p));
        v.extend(self.types[t].subs.iter().cloned());
        v
    }
    fn all_conns(&self, t: usize) -> Vec<Conn> {
        let mut v = self.types[t].inherit.map_or(Vec::new(), |p| self.all_conns(p));
        v.extend(self.types[t].conns.iter().cloned());
        v
    }
    fn inherits_from(&self, t: usize, anc: usize) -> bool {
        t == anc || self.types[t].inherit.is_some_and(|p| self.inherits_from(p, anc))
    }
    /// number of module instances below (and including) an instance of type t
    fn weight(&self, t: usize, arg: Option<usize>) -> usize {
        1 + self
            .all_subs(t)
            .iter()
            .map(|(_, c, r)| {
                c.size()
                    * match r {
                        TyRef::Plain(j) => self.weight(*j, None),
                        TyRef::Generic(g, a) => self.weight(*g, Some(*a)),
                        TyRef::Binding => arg.map_or(1, |a| self.weight(a, None)),
                    }
            })
            .sum::<usize>()
    }
}

fn build_doc(ch: &mut Choices) -> Doc {
    let n = 2 + ch.next(6);
    let mut doc = Doc {
        types: Vec::new(),
        links: Vec::new(),
        entry: n - 1,
    };
    for k in 0..ch.next(3) {
        doc.links.push(Link {
            name: format!("L{k}"),
            latency_ms: [0, 1, 100, 2500][ch.next(4)],
            jitter_ms: [0, 0, 5][ch.next(3)],
            bitrate: [0, 1000, 10_000_000][ch.next(3)],
            queuesize: if ch.chance(1, 3) { Some(ch.next(50) as u32) } else { None },
        });
    }
    let generic_at = if n >= 3 && ch.chance(1, 2) { Some(1 + ch.next(n - 2)) } else { None };
    for i in 0..n {
        let mut ty = Ty {
            name: format!("T{i}"),
            ..Default::default()
        };
        if i > 0 && Some(i) != generic_at && ch.chance(2, 5) {
            let p = ch.next(i);
            if doc.types[p].generic.is_none() {
                ty.inherit = Some(p);
            }
        }
        for k in 0..ch.next(4) {
            let card = if ch.chance(1, 2) { Card::Atom } else { Card::Cluster(1 + ch.next(3)) };
            ty.gates.push((format!("g{i}_{k}"), card));
        }
        if Some(i) == generic_at {
            let bound = ch.next(i);
            if doc.types[bound].generic.is_none() {
                ty.generic = Some(("X".to_string(), bound));
                // the placeholder may be used by several fields, atoms and clusters
                for k in 0..1 + ch.next(3) {
                    let card = if ch.chance(3, 4) { Card::Atom } else { Card::Cluster(1 + ch.next(2)) };
                    ty.subs.push((format!("x{i}_{k}"), card, TyRef::Binding));
                }
            }
        }
        if i > 0 {
            for k in 0..ch.next(4) {
                let card = if ch.chance(2, 3) { Card::Atom } else { Card::Cluster(1 + ch.next(3)) };
                let j = ch.next(i);
                let tref = if let Some((_, bound)) = doc.types[j].generic.clone() {
                    // instantiate the generic type with a conforming concrete type
                    let cands: Vec<usize> = (0..i).filter(|c| doc.types[*c].generic.is_none() && doc.inherits_from(*c, bound)).collect();
                    if cands.is_empty() {
                        continue;
                    }
                    TyRef::Generic(j, cands[ch.next(cands.len())])
                } else {
                    TyRef::Plain(j)
                };
                ty.subs.push((format!("s{i}_{k}"), card, tref));
            }
        }
        doc.types.push(ty);
        // keep the instance tree small
        while doc.weight(i, None) > 40 {
            let Some(pos) = doc.types[i].subs.iter().rposition(|s| s.2 != TyRef::Binding) else { break };
            doc.types[i].subs.remove(pos);
        }
        // connections: endpoints with equal sizes whose gate instances are still unused in this type
        let mut used: BTreeSet<String> = BTreeSet::new();
        if let Some(p) = doc.types[i].inherit {
            for c in doc.all_conns(p) {
                for e in [&c.a, &c.b] {
                    for key in endpoint_keys(&doc, i, e) {
                        used.insert(key);
                    }
                }
            }
        }
        let mut cands: Vec<Endpoint> = Vec::new();
        for (g, card) in doc.all_gates(i) {
            cands.push(Endpoint { sub: None, gate: (g.clone(), None) });
            if let Card::Cluster(n) = card {
                cands.push(Endpoint { sub: None, gate: (g.clone(), Some(ch.next(n))) });
            }
        }
        for (s, scard, tref) in doc.all_subs(i) {
            let st = match tref {
                TyRef::Plain(j) => j,
                TyRef::Generic(g, _) => g,
                TyRef::Binding => doc.types[i].generic.as_ref().map_or(0, |g| g.1),
            };
            for (g, gcard) in doc.all_gates(st) {
                cands.push(Endpoint { sub: Some((s.clone(), None)), gate: (g.clone(), None) });
                if let Card::Cluster(n) = scard {
                    cands.push(Endpoint { sub: Some((s.clone(), Some(ch.next(n)))), gate: (g.clone(), None) });
                }
                if let Card::Cluster(n) = gcard {
                    let si = if let Card::Cluster(m) = scard { Some(ch.next(m)) } else { None };
                    if si.is_some() || scard == Card::Atom {
                        cands.push(Endpoint { sub: Some((s.clone(), si)), gate: (g.clone(), Some(ch.next(n))) });
                    }
                }
            }
        }
        for _ in 0..ch.next(5) {
            if cands.len() < 2 {
                break;
            }
            let a = cands[ch.next(cands.len())].clone();
            let ka = endpoint_keys(&doc, i, &a);
            let partners: Vec<Endpoint> = cands
                .iter()
                .filter(|b| {
                    // two gates of one submodule may already be connected inside it; a second connection of the
                    // same pair would be a no-op with an ambiguous link, so such descriptions are not generated
                    if a.sub.is_some() && a.sub.as_ref().map(|s| &s.0) == b.sub.as_ref().map(|s| &s.0) {
                        return false;
                    }
                    let kb = endpoint_keys(&doc, i, b);
                    kb.len() == ka.len() && kb.iter().all(|k| !ka.contains(k) && !used.contains(k))
                })
                .cloned()
                .collect();
            if partners.is_empty() || ka.iter().any(|k| used.contains(k)) {
                continue;
            }
            let b = partners[ch.next(partners.len())].clone();
            used.extend(ka);
            used.extend(endpoint_keys(&doc, i, &b));
            let link = if doc.links.is_empty() || ch.chance(1, 2) { None } else { Some(ch.next(doc.links.len())) };
            doc.types[i].conns.push(Conn { a, b, link });
        }
    }
    // the entry must be concrete
    if doc.types[doc.entry].generic.is_some() {
        doc.entry = (0..n).rev().find(|t| doc.types[*t].generic.is_none()).unwrap_or(0);
    }
    doc
}

/// The gate instances (relative to an instance of type `t`) an endpoint expression denotes.
fn endpoint_keys(doc: &Doc, t: usize, e: &Endpoint) -> Vec<String> {
    let (gates, prefixes): (Vec<(String, Card)>, Vec<String>) = match &e.sub {
        None => (doc.all_gates(t), vec![String::new()]),
        Some((s, idx)) => {
            let Some((_, card, tref)) = doc.all_subs(t).into_iter().find(|x| x.0 == *s) else { return vec![] };
            let st = match tref {
                TyRef::Plain(j) => j,
                TyRef::Generic(g, _) => g,
                TyRef::Binding => doc.types[t].generic.as_ref().map_or(0, |g| g.1),
            };
            let pre = match (idx, &card) {
                (Some(i), _) => vec![format!("{s}[{i}]/")],
                (None, Card::Atom) => vec![format!("{s}/")],
                (None, Card::Cluster(n)) => (0..*n).map(|i| format!("{s}[{i}]/")).collect(),
            };
            (doc.all_gates(st), pre)
        }
    };
    let Some((_, gcard)) = gates.iter().find(|g| g.0 == e.gate.0) else { return vec![] };
    let mut out = Vec::new();
    for p in &prefixes {
        match (&e.gate.1, gcard) {
            (Some(i), _) => out.push(format!("{p}{}[{i}]", e.gate.0)),
            (None, Card::Atom) => out.push(format!("{p}{}", e.gate.0)),
            (None, Card::Cluster(n)) => out.extend((0..*n).map(|i| format!("{p}{}[{i}]", e.gate.0))),
        }
    }
    out
}

// ------------------------------------------------------------------------------------------
// rendering + single-point mutations

#[derive(Clone, Debug)]
struct RMod {
    key: String,
    inherit: Option<String>,
    gates: Vec<String>,
    subs: Vec<(String, String)>,
    conns: Vec<(String, String, Option<String>)>,
}

#[derive(Clone, Debug)]
struct RDoc {
    entry: String,
    mods: Vec<RMod>,
    links: Vec<(String, Vec<(String, String)>)>,
}

fn render_model(doc: &Doc) -> RDoc {
    let tyname = |r: &TyRef, t: &Ty| match r {
        TyRef::Plain(j) => doc.types[*j].name.clone(),
        TyRef::Generic(g, a) => format!("{}({})", doc.types[*g].name, doc.types[*a].name),
        TyRef::Binding => t.generic.as_ref().map_or("X".into(), |g| g.0.clone()),
    };
    RDoc {
        entry: doc.types[doc.entry].name.clone(),
        mods: doc
            .types
            .iter()
            .map(|t| RMod {
                key: match &t.generic {
                    Some((b, bound)) => format!("{}({} <- {})", t.name, b, doc.types[*bound].name),
                    None => t.name.clone(),
                },
                inherit: t.inherit.map(|p| doc.types[p].name.clone()),
                gates: t.gates.iter().map(|(n, c)| c.decl(n)).collect(),
                subs: t.subs.iter().map(|(n, c, r)| (c.decl(n), tyname(r, t))).collect(),
                conns: t
                    .conns
                    .iter()
                    .map(|c| (c.a.text(), c.b.text(), c.link.map(|l| doc.links[l].name.clone())))
                    .collect(),
            })
            .collect(),
        links: doc
            .links
            .iter()
            .map(|l| {
                let mut f = vec![
                    ("latency".to_string(), format!("{}", l.latency_ms as f64 / 1000.0)),
                    ("jitter".to_string(), format!("{}", l.jitter_ms as f64 / 1000.0)),
                    ("bitrate".to_string(), l.bitrate.to_string()),
                ];
                if let Some(q) = l.queuesize {
                    f.push(("queuesize".to_string(), format!("\"{q}\"")));
                }
                (l.name.clone(), f)
            })
            .collect(),
    }
}

fn yaml(r: &RDoc) -> String {
    let q = |s: &str| format!("\"{}\"", s.replace('\\', "\\\\").replace('"', "\\\""));
    let mut s = format!("entry: {}\n", q(&r.entry));
    if !r.mods.is_empty() {
        s.push_str("modules:\n");
    }
    for m in &r.mods {
        s.push_str(&format!("  {}:\n", q(&m.key)));
        let mut any = false;
        if let Some(i) = &m.inherit {
            s.push_str(&format!("    inherit: {}\n", q(i)));
            any = true;
        }
        if !m.gates.is_empty() {
            s.push_str("    gates:\n");
            for g in &m.gates {
                s.push_str(&format!("    - {}\n", q(g)));
            }
            any = true;
        }
        if !m.subs.is_empty() {
            s.push_str("    submodules:\n");
            for (n, t) in &m.subs {
                s.push_str(&format!("      {}: {}\n", q(n), q(t)));
            }
            any = true;
        }
        if !m.conns.is_empty() {
            s.push_str("    connections:\n");
            for (a, b, l) in &m.conns {
                s.push_str(&format!("    - peers: [{}, {}]\n", q(a), q(b)));
                if let Some(l) = l {
                    s.push_str(&format!("      link: {}\n", q(l)));
                }
            }
            any = true;
        }
        if !any {
            s.push_str("    gates: []\n");
        }
    }
    if !r.links.is_empty() {
        s.push_str("links:\n");
        for (n, f) in &r.links {
            s.push_str(&format!("  {}:\n", q(n)));
            for (k, v) in f {
                s.push_str(&format!("    {k}: {v}\n"));
            }
        }
    }
    s
}

#[derive(Clone, Debug, Serialize, Deserialize, PartialEq)]
pub enum Mutation {
    DanglingSubmoduleType,
    DanglingInherit,
    DanglingGate,
    DanglingSubmoduleInConnection,
    DanglingLink,
    IndexEqualsSize,
    IndexOnAtom,
    ZeroGate,
    ZeroSubmodule,
    InheritCycle,
    SubmoduleCycle,
    UnequalClusters,
    GenericWithoutArgs,
    ArgsOnPlainType,
    GenericArgument,
    NonConformingArgument,
    TooManyArgs,
    MissingEntry,
    /// malformed clause texts: index into MALFORMED
    Malformed(u8),
    /// a block of types around an interface that itself has submodules (one of an instantiated generic type), gates,
    /// a cluster and a connection; the argument differs from the interface by delta `k` (index into DEEP_DELTAS)
    DeepConformance(u8),
}

const MALFORMED_TYPES: [&str; 6] = ["A(B", "A(T <-", "A()", "T0(", "(", "A(T <- B"];
const MALFORMED_FIELDS: [&str; 5] = ["g[", "g[x]", "g[-1]", "g[]", "[3]"];

/// Applies the mutation; returns the set of acceptable error kinds (by name) or None if the site does not exist.
fn mutate(doc: &Doc, r: &mut RDoc, m: &Mutation, site: usize) -> Option<Vec<&'static str>> {
    let nm = r.mods.len();
    let pick_mod = |pred: &dyn Fn(&RMod) -> bool| -> Option<usize> {
        let c: Vec<usize> = (0..nm).filter(|i| pred(&r.mods[*i])).collect();
        if c.is_empty() {
            None
        } else {
            Some(c[site % c.len()])
        }
    };
    match m {
        Mutation::DanglingSubmoduleType => {
            let i = pick_mod(&|m| !m.subs.is_empty())?;
            let k = site % r.mods[i].subs.len();
            r.mods[i].subs[k].1 = "Nope".into();
            Some(vec!["UnresolvableDependency"])
        }
        Mutation::DanglingInherit => {
            let i = site % nm;
            r.mods[i].inherit = Some("Nope".into());
            Some(vec!["UnresolvableDependency"])
        }
        Mutation::DanglingGate => {
            let i = pick_mod(&|m| !m.conns.is_empty())?;
            let k = site % r.mods[i].conns.len();
            let c = &mut r.mods[i].conns[k];
            c.0 = match c.0.rsplit_once('/') {
                Some((pre, _)) => format!("{pre}/nogate"),
                None => "nogate".into(),
            };
            Some(vec!["UnknownGateInConnection"])
        }
        Mutation::DanglingSubmoduleInConnection => {
            let i = pick_mod(&|m| !m.conns.is_empty())?;
            let k = site % r.mods[i].conns.len();
            let c = &mut r.mods[i].conns[k];
            let gate = c.1.rsplit('/').next().unwrap().to_string();
            c.1 = format!("nosub/{gate}");
            Some(vec!["UnknownSubmoduleInConnection"])
        }
        Mutation::DanglingLink => {
            let i = pick_mod(&|m| !m.conns.is_empty())?;
            let k = site % r.mods[i].conns.len();
            r.mods[i].conns[k].2 = Some("NoLink".into());
            Some(vec!["UnknownLink"])
        }
        Mutation::IndexEqualsSize | Mutation::IndexOnAtom => {
            // rewrite the gate accessor of a connection side whose gate is a cluster (resp. an atom)
            for off in 0..doc.types.len() {
                let t = (site + off) % doc.types.len();
                for (k, c) in doc.types[t].conns.iter().enumerate() {
                    for (side, e) in [(0, &c.a), (1, &c.b)] {
                        let st = match &e.sub {
                            None => t,
                            Some((s, _)) => match doc.all_subs(t).into_iter().find(|x| x.0 == *s)?.2 {
                                TyRef::Plain(j) => j,
                                TyRef::Generic(g, _) => g,
                                TyRef::Binding => doc.types[t].generic.as_ref()?.1,
                            },
                        };
                        let card = doc.all_gates(st).into_iter().find(|g| g.0 == e.gate.0)?.1;
                        let want_cluster = *m == Mutation::IndexEqualsSize;
                        let idx = match (&card, want_cluster) {
                            (Card::Cluster(n), true) => *n,
                            (Card::Atom, false) => 0,
                            _ => continue,
                        };
                        let mut e2 = e.clone();
                        e2.gate.1 = Some(idx);
                        if side == 0 {
                            r.mods[t].conns[k].0 = e2.text();
                        } else {
                            r.mods[t].conns[k].1 = e2.text();
                        }
                        return Some(vec!["ConnectionIndexOutOfBounds"]);
                    }
                }
            }
            None
        }
        Mutation::ZeroGate => {
            let i = site % nm;
            r.mods[i].gates.push("zero[0]".into());
            Some(vec!["InvalidGate"])
        }
        Mutation::ZeroSubmodule => {
            let i = pick_mod(&|m| !m.subs.is_empty())?;
            let k = site % r.mods[i].subs.len();
            let name = r.mods[i].subs[k].0.split('[').next().unwrap().to_string();
            r.mods[i].subs[k].0 = format!("{name}[0]");
            // connections that mention the submodule may be reported first
            Some(vec!["InvalidSubmodule"])
        }
        Mutation::InheritCycle => {
            let i = site % nm;
            let me = r.mods[i].key.split('(').next().unwrap().to_string();
            r.mods[i].inherit = Some(me);
            Some(vec!["UnresolvableDependency"])
        }
        Mutation::SubmoduleCycle => {
            let i = site % nm;
            let me = r.mods[i].key.split('(').next().unwrap().to_string();
            r.mods[i].subs.push(("selfref".into(), me));
            Some(vec!["UnresolvableDependency"])
        }
        Mutation::UnequalClusters => {
            let i = site % nm;
            r.mods[i].gates.push("uq_a[2]".into());
            r.mods[i].gates.push("uq_b[3]".into());
            r.mods[i].conns.push(("uq_a".into(), "uq_b".into(), None));
            Some(vec!["UnequalPeers"])
        }
        Mutation::GenericWithoutArgs => {
            let g = doc.types.iter().position(|t| t.generic.is_some())?;
            let users: Vec<usize> = (g + 1..nm).collect();
            let i = *users.get(site % users.len().max(1))?;
            r.mods[i].subs.push(("rawgeneric".into(), doc.types[g].name.clone()));
            Some(vec!["InvalidTypStatement"])
        }
        Mutation::ArgsOnPlainType => {
            let i = nm - 1;
            let plain: Vec<usize> = (0..i).filter(|t| doc.types[*t].generic.is_none()).collect();
            let p = *plain.get(site % plain.len().max(1))?;
            let a = plain[(site / 7) % plain.len()];
            r.mods[i].subs.push(("plainargs".into(), format!("{}({})", doc.types[p].name, doc.types[a].name)));
            Some(vec!["InvalidTypStatement"])
        }
        Mutation::GenericArgument => {
            let g = doc.types.iter().position(|t| t.generic.is_some())?;
            if g + 1 >= nm {
                return None;
            }
            let i = g + 1 + site % (nm - g - 1);
            r.mods[i].subs.push(("genarg".into(), format!("{0}({0})", doc.types[g].name)));
            Some(vec!["InvalidTypStatement", "AssignedTypDoesNotConformToInterface"])
        }
        Mutation::NonConformingArgument => {
            let g = doc.types.iter().position(|t| t.generic.is_some())?;
            let bound = doc.types[g].generic.as_ref()?.1;
            if doc.all_gates(bound).is_empty() && doc.all_subs(bound).is_empty() {
                return None;
            }
            // a fresh type without any gates cannot conform to an interface that has some
            r.mods.insert(
                0,
                RMod {
                    key: "Bare".into(),
                    inherit: None,
                    gates: vec![],
                    subs: vec![],
                    conns: vec![],
                },
            );
            let last = r.mods.len() - 1;
            r.mods[last].subs.push(("nonconf".into(), format!("{}(Bare)", doc.types[g].name)));
            Some(vec!["AssignedTypDoesNotConformToInterface"])
        }
        Mutation::TooManyArgs => {
            let g = doc.types.iter().position(|t| t.generic.is_some())?;
            let bound = doc.types[g].generic.as_ref()?.1;
            let last = r.mods.len() - 1;
            if g >= last {
                return None;
            }
            let b = doc.types[bound].name.clone();
            r.mods[last].subs.push(("manyargs".into(), format!("{}({b}, {b})", doc.types[g].name)));
            Some(vec!["InvalidTypStatement"])
        }
        Mutation::MissingEntry => {
            r.entry = "NoSuchEntry".into();
            Some(vec!["UnknownModule"])
        }
        Mutation::DeepConformance(k) => {
            let delta = DEEP_DELTAS[*k as usize % DEEP_DELTAS.len()];
            deep_block(r, delta);
            Some(vec![if delta.conforms() { "OK" } else { "AssignedTypDoesNotConformToInterface" }])
        }
        Mutation::Malformed(k) => {
            let k = *k as usize;
            let i = site % nm;
            if k < MALFORMED_TYPES.len() {
                if site % 2 == 0 {
                    r.mods[i].subs.push(("malformed".into(), MALFORMED_TYPES[k].into()));
                } else {
                    r.mods.push(RMod {
                        key: MALFORMED_TYPES[k].into(),
                        inherit: None,
                        gates: vec![],
                        subs: vec![],
                        conns: vec![],
                    });
                }
            } else {
                let f = MALFORMED_FIELDS[(k - MALFORMED_TYPES.len()) % MALFORMED_FIELDS.len()];
                match site % 3 {
                    0 => r.mods[i].gates.push(f.into()),
                    1 => r.mods[i].subs.push((f.into(), "T0".into())),
                    _ => r.mods[i].conns.push((f.into(), f.into(), None)),
                }
            }
            Some(vec!["*"])
        }
    }
}

// ------------------------------------------------------------------------------------------
// interface conformance below the first level

/// How the type argument `KArg` differs from the interface `KIface` it is checked against.
#[derive(Clone, Copy, Debug, PartialEq)]
pub enum DeepDelta {
    /// a verbatim copy of the interface: conforms
    Same,
    /// the interface plus one more gate, submodule and connection: conforms
    Superset,
    /// `w: KWrap(KY)` where the interface has `w: KWrap(KX)`
    NestedArgument,
    /// `v: KY` where the interface has `v: KX`
    SubmoduleType,
    /// the gate `ig` is missing
    GateMissing,
    /// `ic[3]` where the interface has `ic[2]`
    GateSize,
    /// the submodule `w` is called `w2`
    SubmoduleName,
    /// `w[2]` where the interface has `w`
    SubmoduleCardinality,
    /// the interface's connection `ig <-> v/p` is missing
    ConnectionMissing,
    /// the connection exists but without the interface's link
    ConnectionLink,
}
impl DeepDelta {
    fn conforms(self) -> bool {
        matches!(self, DeepDelta::Same | DeepDelta::Superset)
    }
}
pub const DEEP_DELTAS: [DeepDelta; 10] = [
    DeepDelta::Same,
    DeepDelta::Superset,
    DeepDelta::NestedArgument,
    DeepDelta::SubmoduleType,
    DeepDelta::GateMissing,
    DeepDelta::GateSize,
    DeepDelta::SubmoduleName,
    DeepDelta::SubmoduleCardinality,
    DeepDelta::ConnectionMissing,
    DeepDelta::ConnectionLink,
];
const DEEP_SYMBOLS: [&str; 7] = ["KBase", "KX", "KY", "KWrap", "KIface", "KArg", "KHost"];

/// Appends the block and instantiates `kh: KHost(KArg)` in the entry module. `KHost` wires its own gate `out` through the
/// placeholder down to `s/w/c/x`, a gate that only exists when the argument really has `w: KWrap(KX)`.
fn deep_block(r: &mut RDoc, d: DeepDelta) {
    let m = |key: &str, inherit: Option<&str>, gates: &[&str], subs: &[(&str, &str)], conns: &[(&str, &str, Option<&str>)]| RMod {
        key: key.into(),
        inherit: inherit.map(Into::into),
        gates: gates.iter().map(|g| g.to_string()).collect(),
        subs: subs.iter().map(|(a, b)| (a.to_string(), b.to_string())).collect(),
        conns: conns.iter().map(|(a, b, l)| (a.to_string(), b.to_string(), l.map(Into::into))).collect(),
    };
    r.links.push(("KL".into(), vec![("latency".into(), "0.25".into()), ("jitter".into(), "0".into()), ("bitrate".into(), "5000".into())]));
    r.mods.push(m("KBase", None, &["p"], &[], &[]));
    r.mods.push(m("KX", Some("KBase"), &["x"], &[], &[]));
    r.mods.push(m("KY", Some("KBase"), &["y"], &[], &[]));
    // `c` is a cluster: the path `s/w/c/x` below names it without an index at its third element
    r.mods.push(m("KWrap(T <- KBase)", None, &[], &[("c[2]", "T")], &[]));
    r.mods.push(m("KIface", None, &["ig", "ic[2]"], &[("w", "KWrap(KX)"), ("v", "KX")], &[("ig", "v/p", Some("KL"))]));
    let mut gates = vec!["ig", "ic[2]"];
    let mut subs = vec![("w", "KWrap(KX)"), ("v", "KX")];
    let mut conns = vec![("ig", "v/p", Some("KL"))];
    match d {
        DeepDelta::Same => {}
        DeepDelta::Superset => {
            gates.push("more");
            subs.push(("u", "KY"));
            conns.push(("more", "u/y", None));
        }
        DeepDelta::NestedArgument => subs[0].1 = "KWrap(KY)",
        DeepDelta::SubmoduleType => subs[1].1 = "KY",
        DeepDelta::GateMissing => {
            gates.remove(0);
            conns.clear();
        }
        DeepDelta::GateSize => gates[1] = "ic[3]",
        DeepDelta::SubmoduleName => subs[0].0 = "w2",
        DeepDelta::SubmoduleCardinality => subs[0].0 = "w[2]",
        DeepDelta::ConnectionMissing => conns.clear(),
        DeepDelta::ConnectionLink => conns[0].2 = None,
    }
    r.mods.push(m("KArg", None, &gates, &subs, &conns));
    r.mods.push(m("KHost(S <- KIface)", None, &["out[2]"], &[("s", "S")], &[("s/w/c/x", "out", None)]));
    let e = r.mods.iter().position(|x| x.key == r.entry).expect("entry module");
    r.mods[e].subs.push(("kh".into(), "KHost(KArg)".into()));
}

/// What the block denotes below the entry module when the argument conforms.
fn deep_denote(d: DeepDelta, root: &str, ex: &mut Expect) {
    let kh = join(root, "kh");
    let s = join(&kh, "s");
    let (w, v) = (join(&s, "w"), join(&s, "v"));
    let (c0, c1) = (join(&w, "c[0]"), join(&w, "c[1]"));
    for (p, sym) in [(&kh, "KHost"), (&s, "KArg"), (&w, "KWrap"), (&c0, "KX"), (&c1, "KX"), (&v, "KX")] {
        ex.modules.insert(p.to_string(), sym.to_string());
    }
    let mut gate = |m: &str, g: &str, n: usize| {
        for i in 0..n {
            ex.gates.insert((m.to_string(), g.to_string(), n, i));
        }
    };
    gate(&kh, "out", 2);
    gate(&s, "ig", 1);
    gate(&s, "ic", 2);
    for m in [&c0, &c1, &v] {
        gate(m, "p", 1);
        gate(m, "x", 1);
    }
    let kl = Some((5000usize, std::time::Duration::from_millis(250).as_nanos(), 0u128, 0usize));
    let mut conn = |a: (&str, &str, usize), b: (&str, &str, usize), l| {
        let (a, b) = ((a.0.to_string(), a.1.to_string(), a.2), (b.0.to_string(), b.1.to_string(), b.2));
        let (x, y) = if a <= b { (a, b) } else { (b, a) };
        ex.conns.insert((x, y, l));
    };
    conn((&s, "ig", 0), (&v, "p", 0), kl);
    // the cluster named in the middle of the path expands member by member against the gate cluster
    conn((&c0, "x", 0), (&kh, "out", 0), None);
    conn((&c1, "x", 0), (&kh, "out", 1), None);
    if d == DeepDelta::Superset {
        let u = join(&s, "u");
        ex.modules.insert(u.clone(), "KY".into());
        for i in 0..1 {
            ex.gates.insert((s.clone(), "more".into(), 1, i));
            ex.gates.insert((u.clone(), "p".into(), 1, i));
            ex.gates.insert((u.clone(), "y".into(), 1, i));
        }
        let (a, b) = ((s.clone(), "more".to_string(), 0usize), (u, "y".to_string(), 0usize));
        let (x, y) = if a <= b { (a, b) } else { (b, a) };
        ex.conns.insert((x, y, None));
    }
    ex.has_generic = true;
    ex.has_inherit = true;
    ex.has_nested_conn = true;
}

// ------------------------------------------------------------------------------------------
// denotation of a valid document

#[derive(Default, Debug)]
struct Expect {
    /// path -> symbol
    modules: BTreeMap<String, String>,
    /// (module path, gate name, size, pos)
    gates: BTreeSet<(String, String, usize, usize)>,
    /// undirected pairs of (module path, gate name, pos) with link parameters
    conns: BTreeSet<((String, String, usize), (String, String, usize), Option<(usize, u128, u128, usize)>)>,
    has_inherit: bool,
    has_cluster: bool,
    has_nested_conn: bool,
    has_generic: bool,
}

fn join(path: &str, name: &str) -> String {
    if path.is_empty() {
        name.to_string()
    } else {
        format!("{path}.{name}")
    }
}

fn denote(doc: &Doc, t: usize, arg: Option<usize>, path: &str, sym: &str, ex: &mut Expect) {
    ex.modules.insert(path.to_string(), sym.to_string());
    if doc.types[t].inherit.is_some() {
        ex.has_inherit = true;
    }
    for (g, card) in doc.all_gates(t) {
        for i in 0..card.size() {
            ex.gates.insert((path.to_string(), g.clone(), card.size(), i));
        }
    }
    let resolve = |r: &TyRef| -> (usize, Option<usize>, String) {
        match r {
            TyRef::Plain(j) => (*j, None, doc.types[*j].name.clone()),
            TyRef::Generic(g, a) => {
                (*g, Some(*a), doc.types[*g].name.clone())
            }
            TyRef::Binding => {
                let a = arg.expect("binding resolved");
                (a, None, doc.types[a].name.clone())
            }
        }
    };
    for (s, card, r) in doc.all_subs(t) {
        if r == TyRef::Binding || matches!(r, TyRef::Generic(..)) {
            ex.has_generic = true;
        }
        if matches!(card, Card::Cluster(_)) {
            ex.has_cluster = true;
        }
        let (st, sarg, ssym) = resolve(&r);
        for i in card.indices() {
            let name = match i {
                Some(i) => format!("{s}[{i}]"),
                None => s.clone(),
            };
            denote(doc, st, sarg, &join(path, &name), &ssym, ex);
        }
    }
    for c in doc.all_conns(t) {
        let inst = |e: &Endpoint| -> Vec<(String, String, usize)> {
            let (mods, gt): (Vec<String>, usize) = match &e.sub {
                None => (vec![path.to_string()], t),
                Some((s, idx)) => {
                    let (_, card, r) = doc.all_subs(t).into_iter().find(|x| x.0 == *s).expect("sub");
                    // gates are looked up in the declared type (interface for a binding)
                    let gt = match r {
                        TyRef::Plain(j) => j,
                        TyRef::Generic(g, _) => g,
                        TyRef::Binding => doc.types[t].generic.as_ref().expect("generic").1,
                    };
                    let names: Vec<String> = match (idx, &card) {
                        (Some(i), _) => vec![format!("{s}[{i}]")],
                        (None, Card::Atom) => vec![s.clone()],
                        (None, Card::Cluster(n)) => (0..*n).map(|i| format!("{s}[{i}]")).collect(),
                    };
                    (names.into_iter().map(|n| join(path, &n)).collect(), gt)
                }
            };
            let card = doc.all_gates(gt).into_iter().find(|g| g.0 == e.gate.0).expect("gate").1;
            let mut out = Vec::new();
            for m in mods {
                match (e.gate.1, &card) {
                    (Some(i), _) => out.push((m.clone(), e.gate.0.clone(), i)),
                    (None, Card::Atom) => out.push((m.clone(), e.gate.0.clone(), 0)),
                    (None, Card::Cluster(n)) => out.extend((0..*n).map(|i| (m.clone(), e.gate.0.clone(), i))),
                }
            }
            out
        };
        if c.a.sub.is_some() || c.b.sub.is_some() {
            ex.has_nested_conn = true;
        }
        let link = c.link.map(|l| {
            let l = &doc.links[l];
            (
                l.bitrate as usize,
                std::time::Duration::from_secs_f64(l.latency_ms as f64 / 1000.0).as_nanos(),
                std::time::Duration::from_secs_f64(l.jitter_ms as f64 / 1000.0).as_nanos(),
                l.queuesize.unwrap_or(0) as usize,
            )
        });
        for (a, b) in inst(&c.a).into_iter().zip(inst(&c.b)) {
            let (x, y) = if a <= b { (a, b) } else { (b, a) };
            ex.conns.insert((x, y, link));
        }
    }
}

// ------------------------------------------------------------------------------------------
// real side

thread_local! {
    static CREATED: RefCell<Vec<(String, String)>> = const { RefCell::new(Vec::new()) };
}

struct RecMod;
impl Module for RecMod {}
impl RegistryCreatable for RecMod {
    fn create(path: &ObjectPath, symbol: &str) -> Self {
        CREATED.with(|c| c.borrow_mut().push((path.as_str().to_string(), symbol.to_string())));
        RecMod
    }
}

fn kind_name(k: &ErrorKind) -> &'static str {
    match k {
        ErrorKind::Other => "Other",
        ErrorKind::MissingRegistrySymbol(..) => "MissingRegistrySymbol",
        ErrorKind::SymbolAlreadyDefined(..) => "SymbolAlreadyDefined",
        ErrorKind::Io(..) => "Io",
        ErrorKind::UnknownLink(..) => "UnknownLink",
        ErrorKind::UnknownModule(..) => "UnknownModule",
        ErrorKind::UnresolvableDependency(..) => "UnresolvableDependency",
        ErrorKind::InvalidGate(..) => "InvalidGate",
        ErrorKind::InvalidSubmodule(..) => "InvalidSubmodule",
        ErrorKind::UnknownGateInConnection(..) => "UnknownGateInConnection",
        ErrorKind::UnknownSubmoduleInConnection(..) => "UnknownSubmoduleInConnection",
        ErrorKind::ConnectionIndexOutOfBounds(..) => "ConnectionIndexOutOfBounds",
        ErrorKind::UnequalPeers(..) => "UnequalPeers",
        ErrorKind::InvalidTypStatement(..) => "InvalidTypStatement",
        ErrorKind::AssignedTypDoesNotConformToInterface(..) => "AssignedTypDoesNotConformToInterface",
    }
}

/// Parse + elaborate; `Err(Err(failure))` = a panic inside des / des-net-utils.
pub fn elaborate(text: &str) -> Result<Result<(Def, des_net_utils::ndl::tree::Network), String>, Failure> {
    let r = catch(|| -> Result<(Def, des_net_utils::ndl::tree::Network), String> {
        let def: Def = serde_yml::from_str(text).map_err(|e| format!("Io(parse): {e}"))?;
        let net = transform(&def).map_err(|e| format!("{}: {e}", kind_name(&e.kind)))?;
        Ok((def, net))
    });
    match r {
        Ok(x) => Ok(x),
        Err((msg, loc)) => {
            if loc.contains("/des-net-utils/") || loc.contains("/des/src/") || loc.is_empty() {
                Err(Failure::new(
                    "elaboration-panicked",
                    format!("parsing/elaborating the description panicked: {msg} @ {loc}\n{text}"),
                ))
            } else {
                // a panic inside a dependency (YAML parser) is not attributed to des
                Ok(Err(format!("dependency-panic: {msg} @ {loc}")))
            }
        }
    }
}

/// Initial corpus of the byte-level target: the repository's own test documents plus generated valid documents.
pub fn seed_documents(seed: u64) -> Vec<Vec<u8>> {
    let mut out: Vec<Vec<u8>> = Vec::new();
    let dir = std::path::Path::new("/repo/des/tests/ndl");
    let mut stack = vec![dir.to_path_buf()];
    while let Some(d) = stack.pop() {
        let Ok(rd) = std::fs::read_dir(&d) else { continue };
        let mut entries: Vec<_> = rd.flatten().map(|e| e.path()).collect();
        entries.sort();
        for p in entries {
            if p.is_dir() {
                stack.push(p);
            } else if p.extension().is_some_and(|e| e == "yml") && !p.to_string_lossy().contains(".par.") {
                if let Ok(b) = std::fs::read(&p) {
                    out.push(b);
                }
            }
        }
    }
    let mut x = seed;
    for _ in 0..12 {
        let choices: Vec<u16> = (0..120)
            .map(|_| {
                x = x.wrapping_mul(6364136223846793005).wrapping_add(1442695040888963407);
                (x >> 33) as u16
            })
            .collect();
        let mut ch = Choices { v: &choices, i: 0 };
        let doc = build_doc(&mut ch);
        out.push(yaml(&render_model(&doc)).into_bytes());
    }
    out
}

#[derive(Clone, Debug, Serialize, Deserialize)]
pub struct Case {
    pub choices: Vec<u16>,
    pub mutation: Option<(Mutation, u16)>,
}

pub struct C18;

pub fn run_case(case: &Case) -> Result<(bool, Vec<&'static str>), Failure> {
    let mut ch = Choices { v: &case.choices, i: 0 };
    let doc = build_doc(&mut ch);
    let mut r = render_model(&doc);
    let mut labels: Vec<&'static str> = Vec::new();
    let expected_err = match &case.mutation {
        Some((m, site)) => mutate(&doc, &mut r, m, *site as usize),
        None => None,
    };
    let text = yaml(&r);
    let res = elaborate(&text)?;
    let deep_ok = match (&expected_err, &case.mutation) {
        (Some(kinds), Some((Mutation::DeepConformance(k), _))) if kinds.contains(&"OK") => Some(DEEP_DELTAS[*k as usize % DEEP_DELTAS.len()]),
        _ => None,
    };
    let expected_err = if deep_ok.is_some() { None } else { expected_err };
    if matches!(case.mutation, Some((Mutation::DeepConformance(_), _))) {
        labels.push("interface-with-submodules");
    }
    if let Some(kinds) = expected_err {
        labels.push("mutated");
        match res {
            // malformed clause texts only have to be handled without a crash: whether 'g[' is a strange atom name
            // or an error is not something the property fixes
            Ok((_, _)) if kinds.contains(&"*") => {}
            Ok((_, _)) => vfail!(
                "invalid-description-accepted",
                "the mutation {:?} must be rejected ({kinds:?}) but elaboration succeeded\n{text}",
                case.mutation
            ),
            Err(e) => {
                let k = e.split(':').next().unwrap_or("").split('(').next().unwrap_or("");
                vensure!(
                    kinds.contains(&"*") || kinds.contains(&k) || k == "Io",
                    "wrong-error-kind",
                    "mutation {:?}: expected an error of kind {kinds:?}, got '{e}'\n{text}",
                    case.mutation
                );
                if k == "Io" && !kinds.contains(&"*") {
                    vfail!("wrong-error-kind", "mutation {:?}: the document no longer parses: {e}\n{text}", case.mutation);
                }
            }
        }
        return Ok((true, labels));
    }
    // valid document: must elaborate and build to exactly the denoted network
    let (def, _net) = match res {
        Ok(x) => x,
        Err(e) => vfail!("valid-description-rejected", "a valid description was rejected: {e}\n{text}"),
    };
    let mut ex = Expect::default();
    denote(&doc, doc.entry, None, "", &doc.types[doc.entry].name, &mut ex);
    if let Some(d) = deep_ok {
        deep_denote(d, "", &mut ex);
    }
    CREATED.with(|c| c.borrow_mut().clear());
    let mut sim = Sim::new(());
    let mut reg = Registry::new()
        .symbol::<RecMod>("T0")
        .symbol::<RecMod>("T1")
        .symbol::<RecMod>("T2")
        .symbol::<RecMod>("T3")
        .symbol::<RecMod>("T4")
        .symbol::<RecMod>("T5")
        .symbol::<RecMod>("T6")
        .symbol::<RecMod>("T7")
        .symbol::<RecMod>(DEEP_SYMBOLS[0])
        .symbol::<RecMod>(DEEP_SYMBOLS[1])
        .symbol::<RecMod>(DEEP_SYMBOLS[2])
        .symbol::<RecMod>(DEEP_SYMBOLS[3])
        .symbol::<RecMod>(DEEP_SYMBOLS[4])
        .symbol::<RecMod>(DEEP_SYMBOLS[5])
        .symbol::<RecMod>(DEEP_SYMBOLS[6]);
    let built = catch(|| sim.nodes_from_ndl(&def, &mut reg));
    let check = (|| -> Result<(), Failure> {
        match built {
            Err((msg, loc)) => vfail!("build-panicked", "building the simulation panicked: {msg} @ {loc}\n{text}"),
            Ok(Err(e)) => vfail!("build-failed", "building the simulation of a valid, realisable description failed: {e}\n{text}"),
            Ok(Ok(())) => {}
        }
        let nodes: BTreeSet<String> = sim.nodes().map(|p| p.as_str().to_string()).collect();
        let want: BTreeSet<String> = ex.modules.keys().cloned().collect();
        vensure!(nodes == want, "module-set", "modules {:?}\nexpected {:?}\n{text}", nodes, want);
        let created: BTreeMap<String, String> = CREATED.with(|c| c.borrow().iter().cloned().collect());
        vensure!(created == ex.modules, "module-software", "registered software per path {:?}\nexpected {:?}\n{text}", created, ex.modules);
        vensure!(
            CREATED.with(|c| c.borrow().len()) == ex.modules.len(),
            "module-software",
            "some module was created twice\n{text}"
        );
        let mut gates = BTreeSet::new();
        let mut conns = BTreeSet::new();
        for path in &nodes {
            let m = sim.get(&ObjectPath::from(path.as_str())).expect("module");
            for g in m.gates() {
                gates.insert((path.clone(), g.name().to_string(), g.size(), g.pos()));
                for slot in 0..2 {
                    let con = Connection {
                        endpoint: g.clone(),
                        endpoint_id: slot,
                        channel: None,
                    };
                    if let Some(next) = con.next_hop() {
                        let peer = &next.endpoint;
                        let a = (path.clone(), g.name().to_string(), g.pos());
                        let b = (peer.owner().path().as_str().to_string(), peer.name().to_string(), peer.pos());
                        vensure!(a != b, "gate-connected-to-itself", "gate {a:?} is connected to itself\n{text}");
                        let link = next.channel().map(|c| {
                            let m = c.metrics();
                            let q = match m.drop_behaviour {
                                des::net::channel::ChannelDropBehaviour::Queue(Some(q)) => q,
                                des::net::channel::ChannelDropBehaviour::Queue(None) => usize::MAX,
                                des::net::channel::ChannelDropBehaviour::Drop => usize::MAX - 1,
                            };
                            (m.bitrate, m.latency.as_nanos(), m.jitter.as_nanos(), q)
                        });
                        let (x, y) = if a <= b { (a, b) } else { (b, a) };
                        conns.insert((x, y, link));
                    }
                }
            }
        }
        vensure!(gates == ex.gates, "gate-set", "gates differ: extra {:?}, missing {:?}\n{text}", gates.difference(&ex.gates).collect::<Vec<_>>(), ex.gates.difference(&gates).collect::<Vec<_>>());
        vensure!(
            conns == ex.conns,
            "connection-set",
            "connections differ: extra {:?}\nmissing {:?}\n{text}",
            conns.difference(&ex.conns).collect::<Vec<_>>(),
            ex.conns.difference(&conns).collect::<Vec<_>>()
        );
        Ok(())
    })();
    drop(sim);
    check?;
    if ex.has_inherit {
        labels.push("inheritance");
    }
    if ex.has_cluster {
        labels.push("cluster");
    }
    if ex.has_nested_conn {
        labels.push("connection-to-submodule-gate");
    }
    if ex.has_generic {
        labels.push("generic-instantiation");
    }
    if !ex.conns.is_empty() {
        labels.push("has-connections");
    }
    if ex.modules.len() >= 10 {
        labels.push(">=10-modules");
    }
    Ok((ex.has_inherit && ex.has_cluster && ex.has_nested_conn, labels))
}

impl Prop for C18 {
    const ID: &'static str = "C18";
    type Case = Case;

    fn rule() -> String {
        "grammar-based generation from a vector of choices: 2..7 module types (inheritance chains, gate atoms and clusters, atom and cluster \
         submodules, one generic type with an interface bound instantiated with conforming arguments, local / submodule / cluster-to-cluster / \
         indexed connections that keep every gate at <= 2 peers, links with non-negative parameters), written as YAML by the harness' own \
         writer; plus single-point mutations (dangling type / inherit / gate / submodule / link, index == size, index on an atom, zero-sized gate \
         or submodule, inherit and submodule cycles, unequal cluster sizes, generic without arguments, arguments on a plain type, a generic or \
         non-conforming or surplus argument, missing entry, malformed type clauses and field names; a DeepConformance block: an interface with gates, a cluster, a connection with a link and submodules - one of an instantiated generic type holding a submodule cluster - checked against 2 conforming and 8 non-conforming arguments, the conforming ones built and compared incl. the connection path s/w/c/x through that cluster). Oracle: (1) parsing + transform never \
         panic (a panic located in des / des-net-utils is a violation) and every mutation is rejected with the listed error kind; (2) a valid \
         document elaborates, builds with a recording registry, and Sim::nodes, the registered symbol per path, every module's gates and every \
         gate's peers with their link metrics equal the harness' own denotation exactly. Non-trivial iff (valid document with inheritance AND \
         a cluster AND a connection to a submodule gate) or a mutated document."
            .into()
    }
    fn assumptions() -> Vec<String> {
        vec![
            "valid documents are constructed realisable: unique names, every gate instance used at most once from inside and once from outside".into(),
            "a panic whose location lies outside des / des-net-utils (YAML library) is not attributed to des".into(),
        ]
    }
    fn plan(tier: Tier) -> Plan {
        Plan {
            shards: tier.pick(4, 16),
            cases_per_shard: tier.pick(2_000, 30_000),
            watchdog: StdDuration::from_secs(tier.pick(300, 3600)),
        }
    }
    fn strategy(_tier: Tier) -> BoxedStrategy<Case> {
        let m = prop_oneof![
            Just(Mutation::DanglingSubmoduleType),
            Just(Mutation::DanglingInherit),
            Just(Mutation::DanglingGate),
            Just(Mutation::DanglingSubmoduleInConnection),
            Just(Mutation::DanglingLink),
            Just(Mutation::IndexEqualsSize),
            Just(Mutation::IndexOnAtom),
            Just(Mutation::ZeroGate),
            Just(Mutation::ZeroSubmodule),
            Just(Mutation::InheritCycle),
            Just(Mutation::SubmoduleCycle),
            Just(Mutation::UnequalClusters),
            Just(Mutation::GenericWithoutArgs),
            Just(Mutation::ArgsOnPlainType),
            Just(Mutation::GenericArgument),
            Just(Mutation::NonConformingArgument),
            Just(Mutation::TooManyArgs),
            Just(Mutation::MissingEntry),
            (0u8..11).prop_map(Mutation::Malformed),
        ];
        let m = prop_oneof![
            5 => m,
            1 => (0u8..DEEP_DELTAS.len() as u8).prop_map(Mutation::DeepConformance),
        ];
        (
            proptest::collection::vec(any::<u16>(), 0..160),
            proptest::option::weighted(0.5, (m, any::<u16>())),
        )
            .prop_map(|(choices, mutation)| Case { choices, mutation })
            .boxed()
    }
    fn run(case: &Case) -> Outcome {
        match run_case(case) {
            Ok((nt, labels)) => Outcome::ok(nt, labels),
            Err(f) => Outcome::failed(f),
        }
    }
    fn extra(tier: Tier, seed: u64, ev: &mut ExtraEvidence) -> Vec<Violation> {
        if tier != Tier::Thorough {
            return Vec::new();
        }
        let mut v = crate::fuzz::run(
            &crate::fuzz::Campaign {
                property: "C18",
                target: "ndl_text",
                asan: false,
                runs: 1_000_000,
                max_len: 1200,
                seed,
                seeds: seed_documents(seed),
                max_time: 600,
            },
            ev,
        );
        v.extend(fuzz_extra("C18", seed, ev));
        v
    }
}
