//! C16 – message bodies are type safe, value preserving and measured consistently.

use crate::engine::*;
use crate::{vensure, vfail};
use des::prelude::*;
use proptest::prelude::*;
use serde::{Deserialize, Serialize};
use std::cell::RefCell;
use std::collections::{BTreeMap, BTreeSet, BinaryHeap, LinkedList, VecDeque};
use std::fmt::Debug;
use std::time::Duration as StdDuration;

// ------------------------------------------------------------------------------------------
// instance registry for droppable values

thread_local! {
    static REG: RefCell<Vec<u8>> = const { RefCell::new(Vec::new()) }; // drop count per instance
    static ZST_CREATED: RefCell<(u32, u32)> = const { RefCell::new((0, 0)) }; // (created, dropped)
}

fn new_instance() -> u32 {
    REG.with(|r| {
        let mut r = r.borrow_mut();
        r.push(0);
        (r.len() - 1) as u32
    })
}

/// A droppable value: `id` is the logical value, `inst` the instance identity.
pub struct Tok {
    id: u32,
    inst: u32,
}
impl Tok {
    fn new(id: u32) -> Self {
        Tok { id, inst: new_instance() }
    }
}
impl Clone for Tok {
    fn clone(&self) -> Self {
        Tok::new(self.id)
    }
}
impl Debug for Tok {
    fn fmt(&self, f: &mut std::fmt::Formatter<'_>) -> std::fmt::Result {
        write!(f, "Tok({})", self.id)
    }
}
impl Drop for Tok {
    fn drop(&mut self) {
        REG.with(|r| r.borrow_mut()[self.inst as usize] += 1);
    }
}
impl MessageBody for Tok {
    fn byte_len(&self) -> usize {
        (self.id % 50) as usize
    }
}

/// Not clonable on purpose.
#[derive(Debug)]
pub struct NonClone {
    tok: Tok,
    s: String,
}
impl MessageBody for NonClone {
    fn byte_len(&self) -> usize {
        self.s.len() + 3
    }
}

/// Zero-sized type with a destructor.
pub struct ZstDrop;
impl Clone for ZstDrop {
    fn clone(&self) -> Self {
        ZST_CREATED.with(|z| z.borrow_mut().0 += 1);
        ZstDrop
    }
}
impl Debug for ZstDrop {
    fn fmt(&self, f: &mut std::fmt::Formatter<'_>) -> std::fmt::Result {
        write!(f, "ZstDrop")
    }
}
impl Drop for ZstDrop {
    fn drop(&mut self) {
        ZST_CREATED.with(|z| z.borrow_mut().1 += 1);
    }
}
impl MessageBody for ZstDrop {
    fn byte_len(&self) -> usize {
        0
    }
}

#[derive(Debug, Clone, PartialEq, MessageBody)]
pub struct A(u32);
#[derive(Debug, Clone, PartialEq, MessageBody)]
pub struct B(u32);
#[derive(Debug, Clone, PartialEq, MessageBody)]
pub struct Named {
    a: u8,
    b: String,
    c: Vec<u16>,
    d: Option<u64>,
}
#[derive(Debug, Clone, PartialEq, MessageBody)]
pub struct Unit;
#[derive(Debug, Clone, PartialEq, MessageBody)]
pub enum En {
    X,
    Y(u32),
    Z { s: String, v: Vec<u8> },
    W(u8, String),
}
#[derive(Debug, Clone, PartialEq, MessageBody)]
pub struct Gen<T> {
    t: T,
    n: u16,
}
#[derive(Debug, Clone, MessageBody)]
pub struct WithTok {
    k: u8,
    tok: Tok,
    inner: En,
}

fn s_of(seed: u64) -> String {
    let n = (seed % 23) as usize;
    (0..n).map(|i| (b'a' + (((seed % 26) as usize + i * 7) % 26) as u8) as char).collect()
}
const STATIC_STRS: [&str; 5] = ["", "a", "hello", "0123456789", "ünï"];

/// A body kind: how to build a value from a seed and an independent length function.
pub trait BK: MessageBody + Debug + 'static + Sized {
    fn mk(seed: u64) -> Self;
    /// expected declared byte length, computed without calling `byte_len`
    fn want_len(seed: u64) -> usize;
    /// number of droppable instances a value holds
    fn toks(_seed: u64) -> usize {
        0
    }
}

macro_rules! bk_prim {
    ($t:ty, $mk:expr, $len:expr) => {
        impl BK for $t {
            fn mk(seed: u64) -> Self {
                #[allow(clippy::redundant_closure_call)]
                ($mk)(seed)
            }
            fn want_len(_seed: u64) -> usize {
                $len
            }
        }
    };
}
bk_prim!(u8, |s| s as u8, 1);
bk_prim!(u16, |s| s as u16, 2);
bk_prim!(u32, |s| s as u32, 4);
bk_prim!(i32, |s| s as i32, 4);
bk_prim!(u64, |s| s, 8);
bk_prim!(i64, |s| s as i64, 8);
bk_prim!(u128, |s| (s as u128) << 40 | 5, 16);
bk_prim!(usize, |s| s as usize, 8);
bk_prim!(i8, |s| s as i8, 1);
bk_prim!(f32, |s| (s % 100_000) as f32 / 7.0, 4);
bk_prim!(f64, |s| (s % 100_000) as f64 / 3.0, 8);
bk_prim!(bool, |s| s % 2 == 0, 1);
bk_prim!(char, |s| char::from_u32((s % 0xD000) as u32).unwrap_or('x'), 4);
bk_prim!((), |_s| (), 0);

impl BK for String {
    fn mk(seed: u64) -> Self {
        s_of(seed)
    }
    fn want_len(seed: u64) -> usize {
        (seed % 23) as usize
    }
}
impl BK for &'static str {
    fn mk(seed: u64) -> Self {
        STATIC_STRS[(seed % 5) as usize]
    }
    fn want_len(seed: u64) -> usize {
        [0, 1, 5, 10, 5][(seed % 5) as usize]
    }
}
impl BK for Option<u32> {
    fn mk(seed: u64) -> Self {
        (seed % 3 != 0).then_some(seed as u32)
    }
    fn want_len(seed: u64) -> usize {
        if seed % 3 != 0 {
            4
        } else {
            0
        }
    }
}
impl BK for Option<String> {
    fn mk(seed: u64) -> Self {
        (seed % 4 != 0).then(|| s_of(seed / 4))
    }
    fn want_len(seed: u64) -> usize {
        if seed % 4 != 0 {
            ((seed / 4) % 23) as usize
        } else {
            0
        }
    }
}
impl BK for Result<u16, String> {
    fn mk(seed: u64) -> Self {
        if seed % 2 == 0 {
            Ok(seed as u16)
        } else {
            Err(s_of(seed / 2))
        }
    }
    fn want_len(seed: u64) -> usize {
        if seed % 2 == 0 {
            2
        } else {
            ((seed / 2) % 23) as usize
        }
    }
}
impl BK for Vec<u8> {
    fn mk(seed: u64) -> Self {
        vec![seed as u8; (seed % 300) as usize]
    }
    fn want_len(seed: u64) -> usize {
        (seed % 300) as usize
    }
}
impl BK for Vec<String> {
    fn mk(seed: u64) -> Self {
        (0..seed % 5).map(|i| s_of(seed.wrapping_add(i))).collect()
    }
    fn want_len(seed: u64) -> usize {
        (0..seed % 5).map(|i| (seed.wrapping_add(i) % 23) as usize).sum()
    }
}
impl BK for [u16; 3] {
    fn mk(seed: u64) -> Self {
        [seed as u16, (seed >> 16) as u16, (seed >> 32) as u16]
    }
    fn want_len(_: u64) -> usize {
        6
    }
}
impl BK for BTreeMap<u8, String> {
    fn mk(seed: u64) -> Self {
        (0..seed % 4).map(|i| (i as u8, s_of(seed.wrapping_add(i)))).collect()
    }
    fn want_len(seed: u64) -> usize {
        (0..seed % 4).map(|i| 1 + (seed.wrapping_add(i) % 23) as usize).sum()
    }
}
impl BK for (u8, String) {
    fn mk(seed: u64) -> Self {
        (seed as u8, s_of(seed))
    }
    fn want_len(seed: u64) -> usize {
        1 + (seed % 23) as usize
    }
}
impl BK for Box<u32> {
    fn mk(seed: u64) -> Self {
        Box::new(seed as u32)
    }
    fn want_len(_: u64) -> usize {
        4
    }
}
impl BK for A {
    fn mk(seed: u64) -> Self {
        A(seed as u32)
    }
    fn want_len(_: u64) -> usize {
        4
    }
}
impl BK for B {
    fn mk(seed: u64) -> Self {
        B(seed as u32)
    }
    fn want_len(_: u64) -> usize {
        4
    }
}
impl BK for Named {
    fn mk(seed: u64) -> Self {
        Named {
            a: seed as u8,
            b: s_of(seed),
            c: vec![7; (seed % 6) as usize],
            d: (seed % 2 == 1).then_some(seed),
        }
    }
    fn want_len(seed: u64) -> usize {
        1 + (seed % 23) as usize + 2 * (seed % 6) as usize + if seed % 2 == 1 { 8 } else { 0 }
    }
}
impl BK for Unit {
    fn mk(_: u64) -> Self {
        Unit
    }
    fn want_len(_: u64) -> usize {
        0
    }
}
fn mk_en(seed: u64) -> En {
    match seed % 4 {
        0 => En::X,
        1 => En::Y(seed as u32),
        2 => En::Z {
            s: s_of(seed / 4),
            v: vec![1; (seed % 9) as usize],
        },
        _ => En::W(seed as u8, s_of(seed / 4)),
    }
}
fn len_en(seed: u64) -> usize {
    match seed % 4 {
        0 => 0,
        1 => 4,
        2 => ((seed / 4) % 23) as usize + (seed % 9) as usize,
        _ => 1 + ((seed / 4) % 23) as usize,
    }
}
impl BK for En {
    fn mk(seed: u64) -> Self {
        mk_en(seed)
    }
    fn want_len(seed: u64) -> usize {
        len_en(seed)
    }
}
impl BK for Gen<String> {
    fn mk(seed: u64) -> Self {
        Gen { t: s_of(seed), n: seed as u16 }
    }
    fn want_len(seed: u64) -> usize {
        (seed % 23) as usize + 2
    }
}
impl BK for Gen<u32> {
    fn mk(seed: u64) -> Self {
        Gen { t: seed as u32, n: seed as u16 }
    }
    fn want_len(_: u64) -> usize {
        6
    }
}
impl BK for ZstDrop {
    fn mk(_: u64) -> Self {
        ZST_CREATED.with(|z| z.borrow_mut().0 += 1);
        ZstDrop
    }
    fn want_len(_: u64) -> usize {
        0
    }
}
impl BK for Tok {
    fn mk(seed: u64) -> Self {
        Tok::new(seed as u32)
    }
    fn want_len(seed: u64) -> usize {
        (seed as u32 % 50) as usize
    }
    fn toks(_: u64) -> usize {
        1
    }
}
impl BK for Vec<Tok> {
    fn mk(seed: u64) -> Self {
        (0..seed % 4).map(|i| Tok::new(seed.wrapping_add(i) as u32)).collect()
    }
    fn want_len(seed: u64) -> usize {
        (0..seed % 4).map(|i| (seed.wrapping_add(i) as u32 % 50) as usize).sum()
    }
    fn toks(seed: u64) -> usize {
        (seed % 4) as usize
    }
}
impl BK for WithTok {
    fn mk(seed: u64) -> Self {
        WithTok {
            k: seed as u8,
            tok: Tok::new(seed as u32),
            inner: mk_en(seed / 3),
        }
    }
    fn want_len(seed: u64) -> usize {
        1 + (seed as u32 % 50) as usize + len_en(seed / 3)
    }
    fn toks(_: u64) -> usize {
        1
    }
}
impl BK for NonClone {
    fn mk(seed: u64) -> Self {
        NonClone {
            tok: Tok::new(seed as u32),
            s: s_of(seed),
        }
    }
    fn want_len(seed: u64) -> usize {
        (seed % 23) as usize + 3
    }
    fn toks(_: u64) -> usize {
        1
    }
}

/// A deque whose storage wraps around the end of its ring buffer: the first `front` items are pushed to the front of
/// a deque that already holds the rest (`as_slices().1` is non-empty whenever 0 < front < len).
fn wrapped<T>(mut items: Vec<T>, front: usize) -> VecDeque<T> {
    let front = front.min(items.len());
    let tail = items.split_off(front);
    let mut q = VecDeque::with_capacity(tail.len() + items.len() + 3);
    q.extend(tail);
    for h in items.into_iter().rev() {
        q.push_front(h);
    }
    q
}
impl BK for VecDeque<u16> {
    fn mk(seed: u64) -> Self {
        wrapped((0..seed % 9).map(|i| seed.wrapping_add(i) as u16).collect(), (seed / 9 % 5) as usize)
    }
    fn want_len(seed: u64) -> usize {
        2 * (seed % 9) as usize
    }
}
impl BK for VecDeque<String> {
    fn mk(seed: u64) -> Self {
        wrapped((0..seed % 6).map(|i| s_of(seed.wrapping_add(i))).collect(), (seed / 6 % 4) as usize)
    }
    fn want_len(seed: u64) -> usize {
        (0..seed % 6).map(|i| (seed.wrapping_add(i) % 23) as usize).sum()
    }
}
impl BK for LinkedList<u16> {
    fn mk(seed: u64) -> Self {
        (0..seed % 7).map(|i| seed.wrapping_add(i) as u16).collect()
    }
    fn want_len(seed: u64) -> usize {
        2 * (seed % 7) as usize
    }
}
impl BK for BTreeSet<u16> {
    fn mk(seed: u64) -> Self {
        // distinct by construction
        (0..seed % 7).map(|i| (seed % 1000) as u16 * 8 + i as u16).collect()
    }
    fn want_len(seed: u64) -> usize {
        2 * (seed % 7) as usize
    }
}
impl BK for BinaryHeap<u32> {
    fn mk(seed: u64) -> Self {
        (0..seed % 7).map(|i| (seed.wrapping_mul(i + 3) % 1000) as u32).collect()
    }
    fn want_len(seed: u64) -> usize {
        4 * (seed % 7) as usize
    }
}
impl BK for std::net::SocketAddr {
    fn mk(seed: u64) -> Self {
        let port = (seed >> 8) as u16;
        if seed % 2 == 0 {
            std::net::SocketAddr::from((std::net::Ipv4Addr::from(seed as u32), port))
        } else {
            std::net::SocketAddr::from((std::net::Ipv6Addr::from((seed as u128) << 17 | 1), port))
        }
    }
    fn want_len(seed: u64) -> usize {
        if seed % 2 == 0 {
            6
        } else {
            18
        }
    }
}
impl BK for (u8, u16, u32) {
    fn mk(seed: u64) -> Self {
        (seed as u8, (seed >> 8) as u16, (seed >> 24) as u32)
    }
    fn want_len(_: u64) -> usize {
        7
    }
}

// fixed-size arrays whose elements differ in length
impl BK for [Option<u32>; 4] {
    fn mk(seed: u64) -> Self {
        std::array::from_fn(|i| ((seed >> i) & 1 == 1).then_some(seed.wrapping_add(i as u64) as u32))
    }
    fn want_len(seed: u64) -> usize {
        // an absent value has no length, a present u32 has 4 bytes
        (0..4).map(|i| if (seed >> i) & 1 == 1 { 4 } else { 0 }).sum()
    }
}
impl BK for [String; 3] {
    fn mk(seed: u64) -> Self {
        std::array::from_fn(|i| s_of(seed.wrapping_mul(i as u64 + 1).wrapping_add(i as u64)))
    }
    fn want_len(seed: u64) -> usize {
        (0..3u64).map(|i| (seed.wrapping_mul(i + 1).wrapping_add(i) % 23) as usize).sum()
    }
}

pub const KINDS: usize = 45;
pub const NONCLONE_KIND: u8 = 44;
const KIND_NAMES: [&str; KINDS] = [
    "u8", "u16", "u32", "i32", "u64", "i64", "u128", "usize", "i8", "f32", "f64", "bool", "char", "()", "String", "&str",
    "Option<u32>", "Option<String>", "Result<u16,String>", "Vec<u8>", "Vec<String>", "[u16;3]", "BTreeMap<u8,String>",
    "(u8,String)", "Box<u32>", "A(u32)", "B(u32)", "Named", "Unit", "En", "Gen<String>", "Gen<u32>", "ZstDrop", "Tok",
    "Vec<Tok>", "VecDeque<u16> (wrapped)", "VecDeque<String> (wrapped)", "LinkedList<u16>", "BTreeSet<u16>", "BinaryHeap<u32>",
    "SocketAddr", "(u8,u16,u32)", "[Option<u32>;4]", "[String;3]", "NonClone",
];
/// kinds that share size and alignment with u32 (the "impostors")
const LAYOUT_U32: [u8; 8] = [2, 3, 9, 12, 24, 25, 26, 31];
const DROPPABLE: [u8; 4] = [33, 34, NONCLONE_KIND, 32];

macro_rules! with_kind {
    ($k:expr, $f:ident, $($arg:expr),*) => {
        match $k {
            0 => $f::<u8>($($arg),*),
            1 => $f::<u16>($($arg),*),
            2 => $f::<u32>($($arg),*),
            3 => $f::<i32>($($arg),*),
            4 => $f::<u64>($($arg),*),
            5 => $f::<i64>($($arg),*),
            6 => $f::<u128>($($arg),*),
            7 => $f::<usize>($($arg),*),
            8 => $f::<i8>($($arg),*),
            9 => $f::<f32>($($arg),*),
            10 => $f::<f64>($($arg),*),
            11 => $f::<bool>($($arg),*),
            12 => $f::<char>($($arg),*),
            13 => $f::<()>($($arg),*),
            14 => $f::<String>($($arg),*),
            15 => $f::<&'static str>($($arg),*),
            16 => $f::<Option<u32>>($($arg),*),
            17 => $f::<Option<String>>($($arg),*),
            18 => $f::<Result<u16, String>>($($arg),*),
            19 => $f::<Vec<u8>>($($arg),*),
            20 => $f::<Vec<String>>($($arg),*),
            21 => $f::<[u16; 3]>($($arg),*),
            22 => $f::<BTreeMap<u8, String>>($($arg),*),
            23 => $f::<(u8, String)>($($arg),*),
            24 => $f::<Box<u32>>($($arg),*),
            25 => $f::<A>($($arg),*),
            26 => $f::<B>($($arg),*),
            27 => $f::<Named>($($arg),*),
            28 => $f::<Unit>($($arg),*),
            29 => $f::<En>($($arg),*),
            30 => $f::<Gen<String>>($($arg),*),
            31 => $f::<Gen<u32>>($($arg),*),
            32 => $f::<ZstDrop>($($arg),*),
            33 => $f::<Tok>($($arg),*),
            34 => $f::<Vec<Tok>>($($arg),*),
            35 => $f::<VecDeque<u16>>($($arg),*),
            36 => $f::<VecDeque<String>>($($arg),*),
            37 => $f::<LinkedList<u16>>($($arg),*),
            38 => $f::<BTreeSet<u16>>($($arg),*),
            39 => $f::<BinaryHeap<u32>>($($arg),*),
            40 => $f::<std::net::SocketAddr>($($arg),*),
            41 => $f::<(u8, u16, u32)>($($arg),*),
            42 => $f::<[Option<u32>; 4]>($($arg),*),
            43 => $f::<[String; 3]>($($arg),*),
            _ => $f::<NonClone>($($arg),*),
        }
    };
}

// ------------------------------------------------------------------------------------------
// two types with one name

struct TwinVt {
    name: &'static str,
    set: fn(&mut Message, u32),
    read: fn(&Message) -> Option<u32>,
    can: fn(&Message) -> bool,
}

fn twin_ops() -> [TwinVt; 2] {
    let a = {
        #[derive(Debug, Clone)]
        struct Twin(u32);
        impl MessageBody for Twin {
            fn byte_len(&self) -> usize {
                4
            }
        }
        TwinVt {
            name: std::any::type_name::<Twin>(),
            set: |m, v| m.set_content(Twin(v)),
            read: |m| m.try_content::<Twin>().map(|t| t.0),
            can: |m| m.can_cast::<Twin>(),
        }
    };
    let b = {
        #[derive(Debug, Clone)]
        struct Twin(u32);
        impl MessageBody for Twin {
            fn byte_len(&self) -> usize {
                4
            }
        }
        TwinVt {
            name: std::any::type_name::<Twin>(),
            set: |m, v| m.set_content(Twin(v)),
            read: |m| m.try_content::<Twin>().map(|t| t.0),
            can: |m| m.can_cast::<Twin>(),
        }
    };
    [a, b]
}

// ------------------------------------------------------------------------------------------
// case

#[derive(Clone, Debug, Serialize, Deserialize)]
pub enum Op {
    Set { slot: u8, kind: u8, seed: u64 },
    SetNonClonable { slot: u8, kind: u8, seed: u64 },
    Clone { src: u8, dst: u8 },
    TryClone { src: u8, dst: u8 },
    TryCast { slot: u8, kind: u8 },
    TryContent { slot: u8, kind: u8 },
    TryContentMut { slot: u8, kind: u8 },
    CanCast { slot: u8, kind: u8 },
    Length { slot: u8 },
    Drop { slot: u8 },
    ClearBody { slot: u8 },
    /// two distinct types that print the same `type_name` (both called `Twin`, declared in different blocks of one
    /// function, same layout): a body of one of them is not a body of the other
    TwinProbe { first: bool, v: u32 },
}

#[derive(Clone, Debug, Serialize, Deserialize)]
pub struct Case {
    pub ops: Vec<Op>,
}

#[derive(Clone, Debug)]
struct ModelBody {
    kind: u8,
    seed: u64,
    clonable: bool,
}

const SLOTS: usize = 3;

/// kind 255 stands for "the type the body really has"
fn real_kind(kind: u8, mb: &Option<ModelBody>) -> u8 {
    match (kind, mb) {
        (255, Some(b)) => b.kind,
        _ => kind % KINDS as u8,
    }
}

fn set_clonable<T: BK + Clone>(msg: &mut Message, seed: u64) {
    msg.set_content(T::mk(seed));
}
fn set_any<T: BK>(msg: &mut Message, seed: u64) {
    msg.set_content_non_clonable(T::mk(seed));
}
fn repr<T: BK>(seed: u64) -> String {
    format!("{:?}", T::mk(seed))
}
fn want_len<T: BK>(seed: u64) -> usize {
    T::want_len(seed)
}
fn toks<T: BK>(seed: u64) -> usize {
    T::toks(seed)
}
fn can_cast<T: BK>(msg: &Message) -> bool {
    msg.can_cast::<T>()
}
fn try_content<T: BK>(msg: &Message) -> Option<String> {
    msg.try_content::<T>().map(|v| format!("{v:?}"))
}
fn try_content_mut<T: BK>(msg: &mut Message) -> Option<String> {
    msg.try_content_mut::<T>().map(|v| format!("{v:?}"))
}
fn try_cast<T: BK + Send>(msg: Message) -> Result<String, Message> {
    msg.try_cast::<T>().map(|(v, _h)| format!("{v:?}"))
}

/// `set_content` needs `Clone`: dispatch only over the clonable kinds.
fn do_set(msg: &mut Message, kind: u8, seed: u64) {
    macro_rules! f {
        ($($k:expr => $t:ty),*) => {
            match kind { $($k => set_clonable::<$t>(msg, seed),)* _ => unreachable!() }
        };
    }
    f!(0 => u8, 1 => u16, 2 => u32, 3 => i32, 4 => u64, 5 => i64, 6 => u128, 7 => usize, 8 => i8, 9 => f32, 10 => f64,
       11 => bool, 12 => char, 13 => (), 14 => String, 15 => &'static str, 16 => Option<u32>, 17 => Option<String>,
       18 => Result<u16, String>, 19 => Vec<u8>, 20 => Vec<String>, 21 => [u16; 3], 22 => BTreeMap<u8, String>,
       23 => (u8, String), 24 => Box<u32>, 25 => A, 26 => B, 27 => Named, 28 => Unit, 29 => En, 30 => Gen<String>,
       31 => Gen<u32>, 32 => ZstDrop, 33 => Tok, 34 => Vec<Tok>, 35 => VecDeque<u16>, 36 => VecDeque<String>,
       37 => LinkedList<u16>, 38 => BTreeSet<u16>, 39 => BinaryHeap<u32>, 40 => std::net::SocketAddr, 41 => (u8, u16, u32),
       42 => [Option<u32>; 4], 43 => [String; 3])
}

// `Message::try_cast` needs `Send`; Tok-based kinds are Send (plain data).
fn do_try_cast(msg: Message, kind: u8) -> Result<String, Message> {
    with_kind!(kind, try_cast, msg)
}

fn live_tok_instances_ok(expected_live: usize) -> Result<(), Failure> {
    REG.with(|r| {
        let r = r.borrow();
        if let Some(i) = r.iter().position(|c| *c > 1) {
            vfail!("value-dropped-twice", "droppable instance #{i} was dropped {} times", r[i]);
        }
        let live = r.iter().filter(|c| **c == 0).count();
        vensure!(
            live == expected_live,
            if live > expected_live { "value-leaked" } else { "value-dropped-early" },
            "{live} droppable instances are alive, the model expects {expected_live}"
        );
        Ok(())
    })
}

pub fn run_case(case: &Case) -> Result<(bool, Vec<&'static str>), Failure> {
    REG.with(|r| r.borrow_mut().clear());
    ZST_CREATED.with(|z| *z.borrow_mut() = (0, 0));
    let mut msgs: Vec<Option<Message>> = (0..SLOTS).map(|_| None).collect();
    let mut model: Vec<Option<Option<ModelBody>>> = vec![None; SLOTS]; // Some(None): message without body
    let mut twins = 0u32;
    let mut f_failed_impostor = false;
    let mut f_read_after_failed = false;
    let mut f_clone = false;
    let mut f_droppable = false;
    let mut last_failed_slot: Option<usize> = None;

    let expected_live = |model: &Vec<Option<Option<ModelBody>>>| -> usize {
        model
            .iter()
            .flatten()
            .flatten()
            .map(|b| with_kind!(b.kind, toks, b.seed))
            .sum()
    };

    for (step, op) in case.ops.iter().enumerate() {
        match op {
            Op::Set { slot, kind, seed } | Op::SetNonClonable { slot, kind, seed } => {
                let s = *slot as usize % SLOTS;
                let nonclon = matches!(op, Op::SetNonClonable { .. });
                let kind = if nonclon { *kind % KINDS as u8 } else { *kind % (KINDS as u8 - 1) };
                if msgs[s].is_none() {
                    msgs[s] = Some(Message::default().id(step as u16));
                }
                let m = msgs[s].as_mut().unwrap();
                if nonclon {
                    with_kind!(kind, set_any, m, *seed);
                } else {
                    do_set(m, kind, *seed);
                }
                if DROPPABLE.contains(&kind) {
                    f_droppable = true;
                }
                model[s] = Some(Some(ModelBody {
                    kind,
                    seed: *seed,
                    clonable: !nonclon,
                }));
            }
            Op::TwinProbe { first, v } => {
                twins += 1;
                let ops = twin_ops();
                let (own, other) = if *first { (&ops[0], &ops[1]) } else { (&ops[1], &ops[0]) };
                let mut m = Message::default();
                (own.set)(&mut m, *v);
                let (can_other, read_other, can_own, read_own) = ((other.can)(&m), (other.read)(&m), (own.can)(&m), (own.read)(&m));
                vensure!(
                    !can_other && read_other.is_none(),
                    "cast-to-wrong-type-succeeded",
                    "step {step}: a body of one type named {} was accepted as the other type of the same name (can_cast {can_other}, try_content {read_other:?})",
                    own.name
                );
                vensure!(
                    can_own && read_own == Some(*v),
                    "value-changed",
                    "step {step}: a body of type {} = {v} reads back as {read_own:?} (can_cast {can_own})",
                    own.name
                );
                vensure!(own.name == other.name, "harness-twin-names", "the two probe types print different names: {} / {}", own.name, other.name);
            }
            Op::ClearBody { slot } => {
                let s = *slot as usize % SLOTS;
                msgs[s] = Some(Message::default().id(step as u16));
                model[s] = Some(None);
            }
            Op::Clone { src, dst } | Op::TryClone { src, dst } => {
                let (a, b) = (*src as usize % SLOTS, *dst as usize % SLOTS);
                let Some(mb) = model[a].clone() else { continue };
                let clonable = mb.as_ref().map_or(true, |b| b.clonable);
                let m = msgs[a].as_ref().unwrap();
                let cloned = if matches!(op, Op::Clone { .. }) {
                    if !clonable {
                        // documented: Clone panics for non-clonable bodies
                        let r = catch(|| m.clone());
                        vensure!(r.is_err(), "clone-of-non-clonable-succeeded", "Message::clone of a non-clonable body did not panic");
                        continue;
                    }
                    Some(m.clone())
                } else {
                    m.try_clone()
                };
                vensure!(
                    cloned.is_some() == clonable,
                    "try-clone-result",
                    "step {step}: try_clone returned {} for a body that is {}clonable",
                    if cloned.is_some() { "Some" } else { "None" },
                    if clonable { "" } else { "not " }
                );
                if let Some(c) = cloned {
                    f_clone = true;
                    if a != b {
                        msgs[b] = Some(c);
                        model[b] = Some(mb);
                    } else {
                        drop(c);
                    }
                }
            }
            Op::CanCast { slot, kind } => {
                let s = *slot as usize % SLOTS;
                let kind = *kind % KINDS as u8;
                let Some(mb) = &model[s] else { continue };
                let want = mb.as_ref().is_some_and(|b| b.kind == kind);
                let got = with_kind!(kind, can_cast, msgs[s].as_ref().unwrap());
                vensure!(
                    got == want,
                    "can-cast-wrong",
                    "step {step}: can_cast::<{}> = {got} on a body of type {:?}",
                    KIND_NAMES[kind as usize],
                    mb.as_ref().map(|b| KIND_NAMES[b.kind as usize])
                );
            }
            Op::TryContent { slot, kind } | Op::TryContentMut { slot, kind } => {
                let s = *slot as usize % SLOTS;
                let Some(mb) = model[s].clone() else { continue };
                let kind = real_kind(*kind, &mb);
                let got = if matches!(op, Op::TryContent { .. }) {
                    with_kind!(kind, try_content, msgs[s].as_ref().unwrap())
                } else {
                    with_kind!(kind, try_content_mut, msgs[s].as_mut().unwrap())
                };
                let want = mb
                    .as_ref()
                    .filter(|b| b.kind == kind)
                    .map(|b| with_kind!(b.kind, repr, b.seed));
                // repr() created temporary values with Tok instances: they are dropped again (count 1), fine.
                match (&got, &want) {
                    (Some(g), Some(w)) => {
                        vensure!(g == w, "value-not-preserved", "step {step}: read {g} but {w} was stored");
                        if last_failed_slot == Some(s) {
                            f_read_after_failed = true;
                        }
                    }
                    (None, None) => {
                        if let Some(b) = &mb {
                            if LAYOUT_U32.contains(&b.kind) && LAYOUT_U32.contains(&kind) {
                                f_failed_impostor = true;
                                last_failed_slot = Some(s);
                            }
                        }
                    }
                    (Some(g), None) => vfail!(
                        "body-reinterpreted",
                        "step {step}: body of type {:?} was readable as {}: {g}",
                        mb.as_ref().map(|b| KIND_NAMES[b.kind as usize]),
                        KIND_NAMES[kind as usize]
                    ),
                    (None, Some(_)) => vfail!(
                        "right-type-rejected",
                        "step {step}: body of type {} could not be read as its own type",
                        KIND_NAMES[kind as usize]
                    ),
                }
            }
            Op::TryCast { slot, kind } => {
                let s = *slot as usize % SLOTS;
                let Some(mb) = model[s].clone() else { continue };
                let kind = real_kind(*kind, &mb);
                let m = msgs[s].take().unwrap();
                let id = m.header().id;
                let want = mb
                    .as_ref()
                    .filter(|b| b.kind == kind)
                    .map(|b| with_kind!(b.kind, repr, b.seed));
                match (do_try_cast(m, kind), want) {
                    (Ok(g), Some(w)) => {
                        vensure!(g == w, "value-not-preserved", "step {step}: cast returned {g} but {w} was stored");
                        if last_failed_slot == Some(s) {
                            f_read_after_failed = true;
                        }
                        model[s] = None;
                    }
                    (Err(back), None) => {
                        vensure!(back.header().id == id, "failed-cast-damaged-header", "step {step}: header changed by a failed cast");
                        if let Some(b) = &mb {
                            // the message must be intact: still readable as its real type
                            let again = with_kind!(b.kind, try_content, &back);
                            let w = with_kind!(b.kind, repr, b.seed);
                            vensure!(
                                again.as_deref() == Some(w.as_str()),
                                "failed-cast-damaged-body",
                                "step {step}: after a failed cast to {} the body reads {again:?}, expected {w}",
                                KIND_NAMES[kind as usize]
                            );
                            if LAYOUT_U32.contains(&b.kind) && LAYOUT_U32.contains(&kind) {
                                f_failed_impostor = true;
                                last_failed_slot = Some(s);
                            }
                        } else {
                            vensure!(back.length() == 64, "failed-cast-damaged-body", "step {step}: empty message grew a body");
                        }
                        msgs[s] = Some(back);
                    }
                    (Ok(g), None) => vfail!(
                        "body-reinterpreted",
                        "step {step}: body of type {:?} was cast to {}: {g}",
                        mb.as_ref().map(|b| KIND_NAMES[b.kind as usize]),
                        KIND_NAMES[kind as usize]
                    ),
                    (Err(_), Some(_)) => vfail!(
                        "right-type-rejected",
                        "step {step}: body of type {} could not be cast to its own type",
                        KIND_NAMES[kind as usize]
                    ),
                }
            }
            Op::Length { slot } => {
                let s = *slot as usize % SLOTS;
                let Some(mb) = &model[s] else { continue };
                let want = 64 + mb.as_ref().map_or(0, |b| with_kind!(b.kind, want_len, b.seed));
                let got = msgs[s].as_ref().unwrap().length();
                vensure!(
                    got == want,
                    "length-mismatch",
                    "step {step}: Message::length() = {got} for a body {:?}, expected 64 + declared length = {want}",
                    mb.as_ref().map(|b| (KIND_NAMES[b.kind as usize], b.seed))
                );
            }
            Op::Drop { slot } => {
                let s = *slot as usize % SLOTS;
                msgs[s] = None;
                model[s] = None;
            }
        }
        live_tok_instances_ok(expected_live(&model))?;
    }
    // lengths of everything that is left, then drop all
    for s in 0..SLOTS {
        if let (Some(m), Some(mb)) = (&msgs[s], &model[s]) {
            let want = 64 + mb.as_ref().map_or(0, |b| with_kind!(b.kind, want_len, b.seed));
            vensure!(m.length() == want, "length-mismatch", "final: slot {s} length {} expected {want}", m.length());
        }
    }
    msgs.clear();
    live_tok_instances_ok(0)?;
    let (c, d) = ZST_CREATED.with(|z| *z.borrow());
    vensure!(
        c == d,
        if d > c { "value-dropped-twice" } else { "value-leaked" },
        "zero-sized droppable values: {c} created, {d} dropped"
    );
    let mut labels = Vec::new();
    if f_failed_impostor {
        labels.push("failed-cast-to-layout-compatible-type");
    }
    if f_read_after_failed {
        labels.push("successful-read-after-failed-cast");
    }
    if f_clone {
        labels.push("clone");
    }
    if f_droppable {
        labels.push("droppable-body");
    }
    if twins > 0 {
        labels.push("two-types-with-one-type-name");
    }
    Ok((f_failed_impostor && f_read_after_failed && f_clone && f_droppable, labels))
}

pub struct C16;

impl Prop for C16 {
    const ID: &'static str = "C16";
    type Case = Case;

    fn rule() -> String {
        "proptest op sequences over 3 message slots: Set(kind,seed) | SetNonClonable | Clone | TryClone | TryCast<T'> | TryContent<T'> | TryContentMut<T'> | \
         CanCast<T'> | Length | Drop | ClearBody with T, T' from 45 body types (primitives, strings, Option/Result, collections incl. deques with wrapped storage, linked lists, sets and heaps, socket addresses, arrays, tuples, Box, \
         derived tuple/named/unit structs, derived enum, derived generic struct, a ZST with Drop, instance-tracked droppable values, a non-clonable \
         type, and layout-compatible impostors A(u32)/B(u32)/u32/i32/f32/char/Box<u32>/Gen<u32>). Oracle: model (type tag, seed): read/cast succeeds \
         iff T' == tag and returns the stored value (Debug form); failed casts leave header and body intact; try_clone is Some iff clonable; after \
         every op the set of live droppable instances equals the model, none dropped twice; length == 64 + independently computed byte length. \
         Non-trivial iff a failed cast/read to a layout-compatible type is followed by a successful read of the same slot AND a clone happened AND a \
         droppable body was used."
            .into()
    }
    fn assumptions() -> Vec<String> {
        vec![
            "values are compared through their Debug rendering".into(),
            "Message::clone on a non-clonable body is documented to panic; the check only requires that it does".into(),
        ]
    }
    fn plan(tier: Tier) -> Plan {
        Plan {
            shards: tier.pick(4, 16),
            cases_per_shard: tier.pick(10_000, 100_000),
            watchdog: StdDuration::from_secs(tier.pick(300, 3600)),
        }
    }
    fn strategy(tier: Tier) -> BoxedStrategy<Case> {
        let max = tier.pick(40, 120);
        let kind = prop_oneof![
            3 => Just(255u8),
            3 => 0u8..KINDS as u8,
            3 => proptest::sample::select(LAYOUT_U32.to_vec()),
            2 => proptest::sample::select(DROPPABLE.to_vec()),
        ];
        let slot = 0u8..SLOTS as u8;
        let op = prop_oneof![
            5 => (slot.clone(), kind.clone(), any::<u64>()).prop_map(|(slot, kind, seed)| Op::Set { slot, kind, seed }),
            1 => (slot.clone(), kind.clone(), any::<u64>()).prop_map(|(slot, kind, seed)| Op::SetNonClonable { slot, kind, seed }),
            1 => (slot.clone(), any::<u64>()).prop_map(|(slot, seed)| Op::SetNonClonable { slot, kind: NONCLONE_KIND, seed }),
            2 => (slot.clone(), slot.clone()).prop_map(|(src, dst)| Op::Clone { src, dst }),
            2 => (slot.clone(), slot.clone()).prop_map(|(src, dst)| Op::TryClone { src, dst }),
            4 => (slot.clone(), kind.clone()).prop_map(|(slot, kind)| Op::TryCast { slot, kind }),
            4 => (slot.clone(), kind.clone()).prop_map(|(slot, kind)| Op::TryContent { slot, kind }),
            2 => (slot.clone(), kind.clone()).prop_map(|(slot, kind)| Op::TryContentMut { slot, kind }),
            2 => (slot.clone(), kind).prop_map(|(slot, kind)| Op::CanCast { slot, kind }),
            2 => slot.clone().prop_map(|slot| Op::Length { slot }),
            1 => slot.clone().prop_map(|slot| Op::Drop { slot }),
            1 => slot.prop_map(|slot| Op::ClearBody { slot }),
            1 => (any::<bool>(), any::<u32>()).prop_map(|(first, v)| Op::TwinProbe { first, v }),
        ];
        proptest::collection::vec(op, 0..max).prop_map(|ops| Case { ops }).boxed()
    }
    fn run(case: &Case) -> Outcome {
        match run_case(case) {
            Ok((nt, labels)) => Outcome::ok(nt, labels),
            Err(f) => Outcome::failed(f),
        }
    }
}
