pub mod engine;
pub mod cq;
pub mod c01;
pub mod c15;
pub mod prog;
pub mod c02;
