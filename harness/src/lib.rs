pub mod engine;
pub mod cq;
pub mod c01;
pub mod c15;
pub mod prog;
pub mod c02;
pub mod c03;
pub mod c10;
pub mod c11;
pub mod c16;
pub mod c17;
pub mod c19;
pub mod net;
pub mod c12;
pub mod c08;
pub mod c07;
pub mod c14;
pub mod c05;
pub mod c06;
pub mod c09;
pub mod c13;
pub mod c20;
pub mod c04;
pub mod c18;
pub mod fuzzdec;
pub mod fuzz;

// ------------------------------------------------------------------------------------------
// page-allocation budget (C15): des-cqueue requests its pages as blocks whose size equals their alignment. A defect
// that makes the allocator request pages without end would otherwise only show as a hang; with a budget armed, the
// request that exceeds it is refused (null), which des-cqueue does not survive - the worker dies by a signal and the
// engine reports the case. Deterministic: a count of allocations, no clock involved.
pub mod page_budget {
    use std::alloc::{GlobalAlloc, Layout, System};
    use std::cell::Cell;

    thread_local! {
        static LEFT: Cell<i64> = const { Cell::new(i64::MAX) };
    }

    /// Arms the budget for the calling thread (`None` disarms it).
    pub fn arm(pages: Option<i64>) {
        LEFT.with(|l| l.set(pages.unwrap_or(i64::MAX)));
    }

    pub struct Counting;

    fn page_like(layout: &Layout) -> bool {
        layout.align() >= 256 && layout.size() == layout.align()
    }

    fn take() -> bool {
        LEFT.try_with(|l| {
            let v = l.get();
            if v == i64::MAX {
                true
            } else if v <= 0 {
                false
            } else {
                l.set(v - 1);
                true
            }
        })
        .unwrap_or(true)
    }

    // SAFETY: delegates to the system allocator; refusing a request by returning null is permitted by the contract
    unsafe impl GlobalAlloc for Counting {
        unsafe fn alloc(&self, layout: Layout) -> *mut u8 {
            if page_like(&layout) && !take() {
                return std::ptr::null_mut();
            }
            System.alloc(layout)
        }
        unsafe fn alloc_zeroed(&self, layout: Layout) -> *mut u8 {
            if page_like(&layout) && !take() {
                return std::ptr::null_mut();
            }
            System.alloc_zeroed(layout)
        }
        unsafe fn dealloc(&self, ptr: *mut u8, layout: Layout) {
            System.dealloc(ptr, layout)
        }
        unsafe fn realloc(&self, ptr: *mut u8, layout: Layout, new_size: usize) -> *mut u8 {
            System.realloc(ptr, layout, new_size)
        }
    }
}

#[global_allocator]
static GLOBAL: page_budget::Counting = page_budget::Counting;
