pub mod engine;
pub mod cq;
pub mod c01;
