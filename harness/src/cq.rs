//! Shared operation generator + interpreter for the calendar queue (C01, C03 queue level, C15).
//!
//! The model is independent of des-cqueue: a plain vector of pending `(id, time, seq)`
//! plus a FIFO of events added at the current instant.

use crate::engine::{idx, Failure};
use crate::{vensure, vfail};
use des_cqueue::verif::Snapshot;
use des_cqueue::{CQueue, EventHandle};
use proptest::prelude::*;
use serde::{Deserialize, Serialize};
use std::cell::RefCell;
use std::collections::{BTreeMap, BTreeSet, VecDeque};
use std::time::Duration;

#[derive(Clone, Debug, Serialize, Deserialize, PartialEq)]
pub enum AddKind {
    /// exactly the current time
    Zero,
    /// the time of an event that is still pending
    TieWithPending(u16),
    /// somewhere inside the bucket that contains the current time
    SameBucket(u16),
    /// a bucket boundary ahead of the current time, shifted by -1/0/+1 ns
    BucketEdge(u8, i8),
    /// current time rounded up to a bucket boundary plus m whole years, plus d ns
    YearMultiple(u8, u8),
    /// far-future outlier: up to 2*10^5 bucket widths ahead
    Outlier(u32),
    /// a small delta in nanoseconds
    Small(u32),
    /// a delta measured in bucket widths (w) plus nanoseconds
    Widths(u16, u16),
    /// a timestamp beyond 2^64 ns (about 585 years, "never"-style events). Such events are always cancelled by the
    /// interpreter before it drains the queue (walking the calendar that far is a matter of cost, not semantics).
    Huge(u8),
    /// 65 + (k % 40) events at exactly the current time, added back to back (more than any small fixed capacity of
    /// the current-instant FIFO); expanded into single `Zero` adds by the interpreter
    ZeroBurst(u8),
}

#[derive(Clone, Debug, Serialize, Deserialize, PartialEq)]
pub enum Op {
    Add(AddKind),
    /// cancel a pending event (index into the pending set, oldest first)
    Cancel(u16),
    /// cancel a pending event whose time equals the current time, if there is one
    CancelAtCurrent(u16),
    Fetch,
    /// cancel using the handle of an event that was already fetched
    CancelFetched(u16),
    /// `fetch_next_if` with a predicate that refuses: nothing may change (incl. the queue time)
    FetchRefused,
    /// cancel a pending event whose payload's destructor panics (once); the panic is caught and the queue is used on.
    /// For payload types without a faulting destructor this is a plain cancel.
    CancelFaulty(u16),
}

#[derive(Clone, Debug, Serialize, Deserialize, PartialEq)]
pub struct QParams {
    pub n: usize,
    pub t_ns: u64,
}

pub const NS: [usize; 9] = [1, 2, 3, 5, 8, 16, 32, 64, 1028];
pub const TS: [u64; 8] = [
    1,
    2,
    7,
    1_000,
    1_000_000,
    2_500_000,
    1_000_000_000,
    3_000_000_000,
];

pub fn params_strategy() -> impl Strategy<Value = QParams> {
    (0..NS.len(), 0..TS.len()).prop_map(|(a, b)| QParams {
        n: NS[a],
        t_ns: TS[b],
    })
}

pub fn add_kind_strategy() -> impl Strategy<Value = AddKind> {
    prop_oneof![
        3 => Just(AddKind::Zero),
        3 => any::<u16>().prop_map(AddKind::TieWithPending),
        2 => any::<u16>().prop_map(AddKind::SameBucket),
        3 => (0u8..4, -1i8..=1).prop_map(|(k, d)| AddKind::BucketEdge(k, d)),
        2 => (0u8..3, 0u8..3).prop_map(|(m, d)| AddKind::YearMultiple(m, d)),
        1 => (0u32..200_000).prop_map(AddKind::Outlier),
        3 => (0u32..5_000).prop_map(AddKind::Small),
        3 => (0u16..40, 0u16..4).prop_map(|(w, d)| AddKind::Widths(w, d)),
        1 => (0u8..8).prop_map(AddKind::Huge),
        1 => (0u8..40).prop_map(AddKind::ZeroBurst),
    ]
}

pub fn op_strategy() -> impl Strategy<Value = Op> {
    prop_oneof![
        8 => add_kind_strategy().prop_map(Op::Add),
        2 => any::<u16>().prop_map(Op::Cancel),
        2 => any::<u16>().prop_map(Op::CancelAtCurrent),
        5 => Just(Op::Fetch),
        1 => any::<u16>().prop_map(Op::CancelFetched),
        2 => Just(Op::FetchRefused),
        1 => any::<u16>().prop_map(Op::CancelFaulty),
    ]
}

// ------------------------------------------------------------------------------------------
// payloads

thread_local! {
    /// drop counter per payload id (payload types with a destructor only)
    pub static DROPS: RefCell<Vec<u32>> = const { RefCell::new(Vec::new()) };
}

thread_local! {
    /// when set, the next destructor of a `FaultyDrop` payload panics (after counting the drop)
    pub static FAULT_ARMED: std::cell::Cell<bool> = const { std::cell::Cell::new(false) };
}

pub trait Payload: Sized {
    /// the destructor can be made to panic through FAULT_ARMED
    const CAN_FAULT: bool = false;
    const TRACKS_DROP: bool;
    const MAX_IDS: u32;
    const NAME: &'static str;
    fn make(id: u32) -> Self;
    fn id(&self) -> u32;
    fn intact(&self) -> bool;
}

impl Payload for u64 {
    const TRACKS_DROP: bool = false;
    const MAX_IDS: u32 = u32::MAX;
    const NAME: &'static str = "u64";
    fn make(id: u32) -> Self {
        u64::from(id) ^ 0xABCD_0000_0000
    }
    fn id(&self) -> u32 {
        (*self ^ 0xABCD_0000_0000) as u32
    }
    fn intact(&self) -> bool {
        (*self >> 32) == 0xABCD
    }
}

fn pattern(id: u32, i: usize) -> u8 {
    (id.wrapping_mul(2_654_435_761).rotate_left((i % 29) as u32) as u8) ^ (i as u8).wrapping_mul(31)
}

macro_rules! define_payload {
    ($name:ident, $size:expr, $align:expr, $drop:tt) => {
        #[repr(align($align))]
        pub struct $name {
            bytes: [u8; $size],
        }
        impl Payload for $name {
            const TRACKS_DROP: bool = $drop;
            const MAX_IDS: u32 = if $size == 1 { 250 } else if $size < 4 { 60_000 } else { u32::MAX };
            const NAME: &'static str = stringify!($name);
            fn make(id: u32) -> Self {
                let mut bytes = [0u8; $size];
                let idb = id.to_le_bytes();
                let k = if $size < 4 { $size } else { 4 };
                bytes[..k].copy_from_slice(&idb[..k]);
                for i in k..$size {
                    bytes[i] = pattern(id, i);
                }
                $name { bytes }
            }
            fn id(&self) -> u32 {
                let mut idb = [0u8; 4];
                let k = if $size < 4 { $size } else { 4 };
                idb[..k].copy_from_slice(&self.bytes[..k]);
                u32::from_le_bytes(idb)
            }
            fn intact(&self) -> bool {
                let id = self.id();
                let k = if $size < 4 { $size } else { 4 };
                (k..$size).all(|i| self.bytes[i] == pattern(id, i))
                    && (self as *const Self as usize) % $align == 0
            }
        }
        define_payload!(@drop $name, $drop);
    };
    (@drop $name:ident, true) => {
        impl Drop for $name {
            fn drop(&mut self) {
                let id = self.id() as usize;
                DROPS.with(|d| {
                    let mut d = d.borrow_mut();
                    if d.len() <= id {
                        d.resize(id + 1, 0);
                    }
                    d[id] += 1;
                });
            }
        }
    };
    (@drop $name:ident, false) => {};
}

define_payload!(P1A1D, 1, 1, true);
define_payload!(P3A1, 3, 1, false);
define_payload!(P3A1D, 3, 1, true);
define_payload!(P8A8D, 8, 8, true);
define_payload!(P6A2D, 6, 2, true);
define_payload!(P24A4D, 24, 4, true);
define_payload!(P24A16D, 24, 16, true);
define_payload!(P100A4, 100, 4, false);
define_payload!(P100A1D, 100, 1, true);
define_payload!(P500A2D, 500, 2, true);
define_payload!(P1000A16D, 1000, 16, true);
define_payload!(P2000A8D, 2000, 8, true);
define_payload!(P40A32D, 40, 32, true);
define_payload!(P64A64D, 64, 64, true);
// node sizes at the edge of a page: 248 bytes (8 short of a 256 byte page), 256 bytes (exactly a 256 byte page) and
// 4088 bytes (8 short of a 4 KiB page)
define_payload!(P200A1D, 200, 1, true);
define_payload!(P208A8D, 208, 8, true);
define_payload!(P4047A1D, 4047, 1, true);

/// Size of a list node holding an `E` (payload as `Option<E>`, 16 bytes time, 8 bytes id, two links), as the
/// allocator rounds it; only used to decide which page sizes a payload type fits.
pub fn node_size<E>() -> usize {
    let a = std::mem::align_of::<E>().max(8);
    (std::mem::size_of::<Option<E>>() + 40).div_ceil(a) * a
}

/// A payload whose destructor panics on demand (after counting the drop).
pub struct FaultyDrop {
    id: u32,
    pad: [u32; 3],
}

impl Payload for FaultyDrop {
    const CAN_FAULT: bool = true;
    const TRACKS_DROP: bool = true;
    const MAX_IDS: u32 = u32::MAX;
    const NAME: &'static str = "FaultyDrop";
    fn make(id: u32) -> Self {
        FaultyDrop { id, pad: [id ^ 0x5a5a_5a5a; 3] }
    }
    fn id(&self) -> u32 {
        self.id
    }
    fn intact(&self) -> bool {
        self.pad == [self.id ^ 0x5a5a_5a5a; 3]
    }
}

impl Drop for FaultyDrop {
    fn drop(&mut self) {
        let id = self.id as usize;
        DROPS.with(|d| {
            let mut d = d.borrow_mut();
            if d.len() <= id {
                d.resize(id + 1, 0);
            }
            d[id] += 1;
        });
        if FAULT_ARMED.with(|f| f.replace(false)) {
            panic!("injected destructor fault of payload {id}");
        }
    }
}

/// A payload owning heap memory (a `String` and a `Vec`): double drops / leaks become
/// visible to the drop counter and, under ASan, to the allocator.
pub struct Heapy {
    id: u32,
    s: String,
    v: Vec<u16>,
}

impl Payload for Heapy {
    const TRACKS_DROP: bool = true;
    const MAX_IDS: u32 = u32::MAX;
    const NAME: &'static str = "Heapy";
    fn make(id: u32) -> Self {
        Heapy {
            id,
            s: format!("payload-{id}"),
            v: (0..(id % 7) as u16).collect(),
        }
    }
    fn id(&self) -> u32 {
        self.id
    }
    fn intact(&self) -> bool {
        self.s == format!("payload-{}", self.id) && self.v.len() == (self.id % 7) as usize
    }
}

impl Drop for Heapy {
    fn drop(&mut self) {
        let id = self.id as usize;
        DROPS.with(|d| {
            let mut d = d.borrow_mut();
            if d.len() <= id {
                d.resize(id + 1, 0);
            }
            d[id] += 1;
        });
    }
}

// ------------------------------------------------------------------------------------------
// interpreter

#[derive(Clone, Copy, Default, Debug)]
pub struct Flags {
    pub fetches: u32,
    pub refused: u32,
    pub faulty_cancels: u32,
    pub cancel_after_fetch: bool,
    pub tie_current: bool,
    pub cancel_at_current_indexed: bool,
    pub year_cross: bool,
    pub zero_add_after_fetch: bool,
    pub outlier: bool,
    pub huge: bool,
    pub zero_burst: bool,
    pub cancel_fetched: bool,
    pub tie_groups: u32,
    pub tie_zero_and_older: bool,
    pub max_len: usize,
    pub pages: usize,
    pub addr_reused: bool,
    pub dropped_nonempty: bool,
}

pub struct Options {
    /// also assert the order among equal timestamps (C03); otherwise ties are free (C01)
    pub tie_order: bool,
    /// validate the structural invariants of the snapshot after every op
    pub structure: bool,
    /// validate the memory-layout invariants of the snapshot after every op
    pub memory: bool,
    /// explicit allocator page size (hook constructor) or the default constructor
    pub page_size: Option<usize>,
    /// drop the queue after this many ops (with events pending), if set
    pub drop_at: Option<usize>,
}

struct Pending {
    id: u32,
    time: u128,
    seq: u64,
    /// was inserted through the zero bucket path (time == current at insertion)
    zero: bool,
}

const HUGE: u128 = 1u128 << 64;

fn dur(ns: u128) -> Duration {
    Duration::new((ns / 1_000_000_000) as u64, (ns % 1_000_000_000) as u32)
}

pub fn check_structure(s: &Snapshot) -> Result<(), Failure> {
    let year = s.t_nanos * s.n as u128;
    let mut total = s.zero.len();
    let mut ids = BTreeSet::new();
    for (time, id) in &s.zero {
        vensure!(
            *time == s.t_current_nanos,
            "zero-bucket-entry-not-at-current-time",
            "zero bucket holds time {time} but t_current is {}",
            s.t_current_nanos
        );
        vensure!(ids.insert(*id), "duplicate-node-id", "id {id} appears twice");
    }
    vensure!(s.buckets.len() == s.n, "bucket-count", "{} buckets for n={}", s.buckets.len(), s.n);
    for (b, bucket) in s.buckets.iter().enumerate() {
        vensure!(
            bucket.walk_terminated,
            "bucket-walk-does-not-terminate",
            "bucket {b}: forward walk does not reach the tail sentinel"
        );
        vensure!(
            bucket.recorded_len == bucket.nodes.len(),
            "bucket-len-mismatch",
            "bucket {b}: recorded len {} but walk found {}",
            bucket.recorded_len,
            bucket.nodes.len()
        );
        let mut prev_addr = bucket.head.addr;
        let mut prev_time = 0u128;
        let mut expected_next = bucket.head.next;
        for node in &bucket.nodes {
            vensure!(
                node.addr == expected_next && node.prev == prev_addr,
                "bucket-links-asymmetric",
                "bucket {b}: node {:#x} prev={:#x} expected prev {:#x}",
                node.addr,
                node.prev,
                prev_addr
            );
            vensure!(
                node.time_nanos >= prev_time,
                "bucket-not-sorted",
                "bucket {b}: time {} after {}",
                node.time_nanos,
                prev_time
            );
            vensure!(node.has_value, "bucket-node-without-value", "bucket {b}: node {:#x} has no value", node.addr);
            let expect_bucket = ((node.time_nanos % year) / s.t_nanos) as usize % s.n;
            vensure!(
                expect_bucket == b,
                "node-in-wrong-bucket",
                "time {} sits in bucket {b}, belongs to {expect_bucket}",
                node.time_nanos
            );
            vensure!(
                node.time_nanos >= s.t_current_nanos,
                "pending-node-older-than-current-time",
                "bucket {b}: time {} < t_current {}",
                node.time_nanos,
                s.t_current_nanos
            );
            vensure!(ids.insert(node.id), "duplicate-node-id", "id {} appears twice", node.id);
            prev_addr = node.addr;
            prev_time = node.time_nanos;
            expected_next = node.next;
        }
        vensure!(
            expected_next == bucket.tail.addr && bucket.tail.prev == prev_addr,
            "bucket-links-asymmetric",
            "bucket {b}: tail linkage broken"
        );
        vensure!(
            bucket.head.prev == 0 && bucket.tail.next == 0,
            "sentinel-links",
            "bucket {b}: sentinel outer links not null"
        );
        total += bucket.nodes.len();
    }
    vensure!(total == s.len, "len-mismatch", "recorded len {} but {} entries exist", s.len, total);
    // the scan window is one bucket wide and sits on the bucket `head` points at
    vensure!(
        s.t1_nanos == s.t0_nanos + s.t_nanos,
        "scan-window-width",
        "scan window [{}, {}] is not one bucket ({} ns) wide",
        s.t0_nanos,
        s.t1_nanos,
        s.t_nanos
    );
    vensure!(
        ((s.t0_nanos % year) / s.t_nanos) as usize % s.n == s.head && s.t0_nanos % s.t_nanos == 0,
        "scan-window-head",
        "scan window starts at {} ns which is bucket {} but head = {}",
        s.t0_nanos,
        ((s.t0_nanos % year) / s.t_nanos) as usize % s.n,
        s.head
    );
    Ok(())
}

/// `leak_allowance`: number of nodes whose memory may be unaccounted for (released neither to the free list nor
/// in use) because a payload destructor unwound in the middle of a release.
pub fn check_memory(s: &Snapshot, leak_allowance: usize) -> Result<(), Failure> {
    let (size, align) = s.node_layout_rounded;
    let a = &s.alloc;
    let mut pages: Vec<usize> = a.pages.clone();
    pages.sort_unstable();
    for w in pages.windows(2) {
        vensure!(w[0] + a.page_size <= w[1], "pages-overlap", "pages {:#x} and {:#x} overlap", w[0], w[1]);
    }
    let page_of = |addr: usize, len: usize| -> Option<usize> {
        let i = pages.partition_point(|p| *p <= addr);
        if i == 0 {
            return None;
        }
        let p = pages[i - 1];
        (addr + len <= p + a.page_size).then_some(p)
    };
    // (start, end, live?)
    let mut regions: Vec<(usize, usize, bool)> = Vec::new();
    let mut live = 0usize;
    for bucket in &s.buckets {
        for node in std::iter::once(&bucket.head)
            .chain(bucket.nodes.iter())
            .chain(std::iter::once(&bucket.tail))
        {
            vensure!(
                node.addr % align == 0 && node.addr % s.node_layout.1 == 0,
                "node-misaligned",
                "node at {:#x} not aligned to {}",
                node.addr,
                align
            );
            vensure!(
                page_of(node.addr, size).is_some(),
                "node-outside-pages",
                "node at {:#x}+{size} is not inside one owned page",
                node.addr
            );
            regions.push((node.addr, node.addr + size, true));
            live += 1;
        }
    }
    vensure!(a.free_walk_terminated, "free-list-walk-does-not-terminate", "free list is cyclic or too long");
    for (addr, len) in &a.free {
        vensure!(*len >= 16, "free-region-too-small", "free region {:#x} has size {len}", addr);
        vensure!(
            page_of(*addr, *len).is_some(),
            "free-region-outside-pages",
            "free region {:#x}+{len} is not inside one owned page",
            addr
        );
        regions.push((*addr, *addr + *len, false));
    }
    regions.sort_unstable();
    for w in regions.windows(2) {
        vensure!(
            w[0].1 <= w[1].0,
            if w[0].2 && w[1].2 { "live-nodes-overlap" } else { "free-region-overlaps" },
            "regions [{:#x},{:#x}) live={} and [{:#x},{:#x}) live={} overlap",
            w[0].0,
            w[0].1,
            w[0].2,
            w[1].0,
            w[1].1,
            w[1].2
        );
    }
    vensure!(
        a.allocated_mem >= live * size && a.allocated_mem <= (live + leak_allowance) * size && (a.allocated_mem - live * size) % size == 0,
        "allocated-mem-mismatch",
        "allocated_mem {} but {} live nodes of {} bytes",
        a.allocated_mem,
        live,
        size
    );
    Ok(())
}

/// Runs a history against a real `CQueue<E>` and the model.
pub fn interpret<E: Payload>(params: &QParams, ops: &[Op], opt: &Options) -> Result<Flags, Failure> {
    let n = params.n;
    let t = params.t_ns as u128;
    let year = t * n as u128;
    if E::TRACKS_DROP {
        DROPS.with(|d| d.borrow_mut().clear());
    }
    let mut flags = Flags::default();
    let mut q: CQueue<E> = match opt.page_size {
        Some(p) => CQueue::verif_with_page_size(n, dur(t), p),
        None => CQueue::new(n, dur(t)),
    };
    let mut handles: BTreeMap<u32, EventHandle<E>> = BTreeMap::new();
    let mut pending: Vec<Pending> = Vec::new();
    let mut zero_fifo: VecDeque<u32> = VecDeque::new();
    let mut fetched: Vec<u32> = Vec::new();
    let mut gone: BTreeSet<u32> = BTreeSet::new(); // ids whose payload must have been dropped once
    let mut cur: u128 = 0;
    let mut next_id: u32 = 0;
    let mut seq: u64 = 0;
    let mut seen_addrs: BTreeSet<usize> = BTreeSet::new();
    let mut freed_addrs: BTreeSet<usize> = BTreeSet::new();
    let mut last_nodes: BTreeMap<usize, usize> = BTreeMap::new(); // id -> addr
    let mut leaked_nodes = 0usize;

    // bursts are written out as single adds (positions such as `drop_at` refer to the written-out history)
    let expanded: Vec<Op>;
    let ops: &[Op] = if ops.iter().any(|o| matches!(o, Op::Add(AddKind::ZeroBurst(_)))) {
        expanded = ops
            .iter()
            .flat_map(|o| match o {
                Op::Add(AddKind::ZeroBurst(k)) => vec![Op::Add(AddKind::Zero); 65 + (*k as usize % 40)],
                other => vec![other.clone()],
            })
            .collect();
        flags.zero_burst = true;
        &expanded
    } else {
        ops
    };
    let total_ops = ops.len();
    let mut step = 0usize;
    let mut draining = false;
    loop {
        let op = if step < total_ops && !draining {
            if opt.drop_at == Some(step) {
                break;
            }
            let op = ops[step].clone();
            step += 1;
            op
        } else {
            if opt.drop_at.is_some() && opt.drop_at.unwrap() >= total_ops {
                // drop_at beyond the history: drop after the history without a drain
                break;
            }
            draining = true;
            if pending.is_empty() {
                break;
            }
            if let Some(pos) = pending.iter().position(|p| p.time >= HUGE) {
                // far-future events are cancelled, not waited for
                Op::Cancel(((pos * 65536 + 65535) / pending.len()).min(65535) as u16)
            } else {
                Op::Fetch
            }
        };
        match op {
            Op::Add(kind) => {
                if next_id >= E::MAX_IDS {
                    continue;
                }
                let bucket_start = cur - cur % t;
                let time = match kind {
                    AddKind::Zero | AddKind::ZeroBurst(_) => cur,
                    AddKind::TieWithPending(i) => {
                        if pending.is_empty() {
                            cur
                        } else {
                            pending[idx(i, pending.len())].time
                        }
                    }
                    AddKind::SameBucket(i) => {
                        let room = (bucket_start + t - cur) as u64;
                        cur + ((i as u64 as u128 * room as u128) >> 16)
                    }
                    AddKind::BucketEdge(k, d) => {
                        let edge = bucket_start + t * (k as u128 + 1);
                        let v = (edge as i128 + d as i128) as u128;
                        v.max(cur)
                    }
                    AddKind::YearMultiple(m, d) => {
                        let up = if cur % t == 0 { cur } else { bucket_start + t };
                        up + (m as u128 + 1) * year + d as u128
                    }
                    AddKind::Outlier(w) => {
                        flags.outlier = true;
                        cur + t * w as u128 + (w as u128 % 3)
                    }
                    AddKind::Small(d) => cur + d as u128,
                    AddKind::Widths(w, d) => cur + t * w as u128 + d as u128,
                    AddKind::Huge(k) => {
                        flags.huge = true;
                        let base = 1u128 << 64;
                        match k % 8 {
                            0 => base,
                            1 => base + 1,
                            2 => base + t,
                            3 => base + year - 1,
                            4 => base + 12_345_678_901 + next_id as u128,
                            5 => base * 3 + year * 7 + 5,
                            6 => (u64::MAX as u128) * 1_000_000_000 + 999_999_999,
                            _ => base + t * (next_id as u128 % 97) + 13,
                        }
                    }
                };
                let id = next_id;
                next_id += 1;
                let is_zero = time == cur;
                if is_zero && flags.fetches > 0 {
                    flags.tie_current = true;
                    flags.zero_add_after_fetch = true;
                }
                let h = q.add(dur(time), E::make(id));
                handles.insert(id, h);
                if is_zero {
                    zero_fifo.push_back(id);
                }
                pending.push(Pending {
                    id,
                    time,
                    seq,
                    zero: is_zero,
                });
                seq += 1;
            }
            Op::Cancel(i) | Op::CancelAtCurrent(i) | Op::CancelFaulty(i) => {
                let faulty = matches!(op, Op::CancelFaulty(_)) && E::CAN_FAULT;
                let candidates: Vec<usize> = match op {
                    Op::CancelAtCurrent(_) => pending
                        .iter()
                        .enumerate()
                        .filter(|(_, p)| p.time == cur)
                        .map(|(k, _)| k)
                        .collect(),
                    _ => (0..pending.len()).collect(),
                };
                if candidates.is_empty() {
                    continue;
                }
                let k = candidates[idx(i, candidates.len())];
                let p = pending.remove(k);
                if flags.fetches > 0 {
                    flags.cancel_after_fetch = true;
                }
                if p.time == cur && flags.fetches > 0 {
                    flags.tie_current = true;
                    if !p.zero {
                        flags.cancel_at_current_indexed = true;
                    }
                }
                if p.zero {
                    zero_fifo.retain(|x| *x != p.id);
                }
                let h = handles.remove(&p.id).expect("handle of pending event");
                if faulty {
                    flags.faulty_cancels += 1;
                    FAULT_ARMED.with(|f| f.set(true));
                    let r = crate::engine::catch(|| q.cancel(h));
                    let fired = !FAULT_ARMED.with(|f| f.replace(false));
                    vensure!(
                        r.is_err() == fired,
                        "harness-fault-injection",
                        "destructor fault fired = {fired} but cancel unwound = {}",
                        r.is_err()
                    );
                    if fired {
                        // the node's memory may be leaked by the unwinding, never handed out twice
                        leaked_nodes += 1;
                    }
                } else {
                    q.cancel(h);
                }
                gone.insert(p.id);
            }
            Op::CancelFetched(i) => {
                if fetched.is_empty() {
                    continue;
                }
                let k = idx(i, fetched.len());
                let id = fetched.remove(k);
                let h = handles.remove(&id).expect("handle of fetched event");
                flags.cancel_fetched = true;
                q.cancel(h);
            }
            Op::FetchRefused => {
                if pending.is_empty() || pending.iter().all(|p| p.time >= HUGE) {
                    // (locating a "never"-style event would walk the calendar for centuries)
                    continue;
                }
                flags.refused += 1;
                let mut seen = None;
                let r = q.fetch_next_if(|t| {
                    seen = Some(t.as_nanos());
                    false
                });
                vensure!(r.is_none(), "refused-fetch-returned-event", "fetch_next_if returned an event although the predicate refused");
                let min = pending.iter().map(|p| p.time).min().unwrap();
                vensure!(
                    seen == Some(min),
                    "not-minimal",
                    "fetch_next_if offered {seen:?} ns to the predicate while the earliest pending event is at {min} ns"
                );
                vensure!(
                    q.time().as_nanos() == cur,
                    "refused-fetch-advanced-time",
                    "a refused fetch_next_if moved the queue time from {cur} to {} ns",
                    q.time().as_nanos()
                );
            }
            Op::Fetch => {
                if pending.is_empty() {
                    vensure!(q.is_empty(), "len-mismatch", "model is empty but queue reports len {}", q.len());
                    continue;
                }
                if pending.iter().all(|p| p.time >= HUGE) {
                    // only "never"-style events are left: fetching would walk the calendar for centuries
                    continue;
                }
                vensure!(!q.is_empty(), "len-mismatch", "model has {} pending but queue is empty", pending.len());
                let (e, time) = q.fetch_next();
                let time = time.as_nanos();
                flags.fetches += 1;
                let id = e.id();
                vensure!(
                    e.intact(),
                    "payload-corrupted",
                    "payload {id} returned by fetch does not carry the bytes that were inserted"
                );
                let min = pending.iter().map(|p| p.time).min().unwrap();
                let Some(pos) = pending.iter().position(|p| p.id == id) else {
                    if gone.contains(&id) {
                        vfail!("cancelled-event-returned", "fetch returned event {id} which had been cancelled");
                    }
                    if fetched.contains(&id) || !handles.contains_key(&id) {
                        vfail!("event-returned-twice", "fetch returned event {id} a second time");
                    }
                    vfail!("unknown-event-returned", "fetch returned unknown event id {id}");
                };
                vensure!(
                    pending[pos].time == time,
                    "wrong-timestamp",
                    "event {id} was scheduled at {} ns but returned with {} ns",
                    pending[pos].time,
                    time
                );
                vensure!(
                    time == min,
                    "not-minimal",
                    "fetch returned time {time} ns while an event at {min} ns is pending"
                );
                vensure!(time >= cur, "time-went-backwards", "fetched {time} ns after {cur} ns");
                if opt.tie_order {
                    // C03: same-instant insertions first (FIFO), then scheduling order
                    let expect = if let Some(z) = zero_fifo.front() {
                        *z
                    } else {
                        pending
                            .iter()
                            .filter(|p| p.time == min)
                            .min_by_key(|p| p.seq)
                            .unwrap()
                            .id
                    };
                    let ties = pending.iter().filter(|p| p.time == min).count();
                    if ties >= 2 {
                        flags.tie_groups += 1;
                        if !zero_fifo.is_empty() && pending.iter().any(|p| p.time == min && !p.zero) {
                            flags.tie_zero_and_older = true;
                        }
                    }
                    vensure!(
                        id == expect,
                        "tie-order",
                        "among {ties} events at {min} ns event {expect} must be dispatched next, got {id}"
                    );
                }
                if time >= cur + year && flags.fetches > 1 {
                    flags.year_cross = true;
                }
                if time != cur {
                    // the instant changed: nothing may remain in the same-instant FIFO
                    vensure!(
                        zero_fifo.is_empty(),
                        "not-minimal",
                        "time advanced to {time} while same-instant events at {cur} are pending"
                    );
                }
                let p = pending.remove(pos);
                if p.zero {
                    zero_fifo.retain(|x| *x != p.id);
                }
                cur = time;
                // pending events inserted earlier for this instant stay in their bucket;
                // events inserted from now on at `cur` are the zero FIFO.
                fetched.push(id);
                drop(e);
                gone.insert(id);
            }
        }
        flags.max_len = flags.max_len.max(pending.len());
        vensure!(
            q.len() == pending.len() && q.is_empty() == pending.is_empty(),
            "len-mismatch",
            "after op #{step}: len() = {} but scheduled - cancelled - fetched = {}",
            q.len(),
            pending.len()
        );
        let stride = (n / 8).max(1);
        if (opt.structure || opt.memory) && (step % stride == 0 || draining) {
            let bound = pending.len() + 2 * n + 1024;
            let snap = q.verif_snapshot(bound);
            if opt.structure {
                check_structure(&snap)?;
                vensure!(
                    snap.t_current_nanos == cur,
                    "current-time-mismatch",
                    "queue time {} but last fetched {}",
                    snap.t_current_nanos,
                    cur
                );
            }
            if opt.memory {
                check_memory(&snap, leaked_nodes)?;
                flags.pages = flags.pages.max(snap.alloc.pages.len());
                let mut now: BTreeMap<usize, usize> = BTreeMap::new();
                for b in &snap.buckets {
                    for nd in &b.nodes {
                        now.insert(nd.id, nd.addr);
                    }
                }
                for (id, addr) in &last_nodes {
                    if !now.contains_key(id) {
                        freed_addrs.insert(*addr);
                    }
                }
                for (id, addr) in &now {
                    if !last_nodes.contains_key(id) {
                        if freed_addrs.contains(addr) {
                            flags.addr_reused = true;
                        }
                        seen_addrs.insert(*addr);
                    }
                }
                last_nodes = now;
            }
        }
        if E::TRACKS_DROP && step % 8 == 0 {
            check_drops::<E>(&gone, &pending, false)?;
        }
    }
    if !pending.is_empty() {
        flags.dropped_nonempty = true;
    }
    // dropping the queue must drop every pending payload exactly once
    for p in &pending {
        gone.insert(p.id);
    }
    pending.clear();
    drop(q);
    drop(handles);
    if E::TRACKS_DROP {
        check_drops::<E>(&gone, &pending, true)?;
    }
    Ok(flags)
}

fn check_drops<E: Payload>(gone: &BTreeSet<u32>, pending: &[Pending], fin: bool) -> Result<(), Failure> {
    DROPS.with(|d| {
        let d = d.borrow();
        for id in gone {
            let c = d.get(*id as usize).copied().unwrap_or(0);
            vensure!(
                c == 1,
                if c == 0 { "payload-not-dropped" } else { "payload-dropped-twice" },
                "payload {id} of type {} was dropped {c} times (expected exactly once{})",
                E::NAME,
                if fin { ", queue dropped" } else { "" }
            );
        }
        for p in pending {
            let c = d.get(p.id as usize).copied().unwrap_or(0);
            vensure!(c == 0, "pending-payload-dropped", "payload {} is pending but was dropped {c} times", p.id);
        }
        Ok(())
    })
}
