use std::path::PathBuf;
use vcore::engine::{drive, seed_from_env, Args, Tier};

fn usage() -> ! {
    eprintln!("usage: vcheck <ID> <quick|thorough> [--replay FILE]");
    std::process::exit(2)
}

fn main() {
    if let Ok(path) = std::env::var("VERIF_C04_TRACE") {
        // child process of the C04 check: print the trace of one case and exit
        std::process::exit(vcore::c04::trace_main(&path));
    }
    let argv: Vec<String> = std::env::args().skip(1).collect();
    if argv.len() < 2 {
        usage();
    }
    let id = argv[0].as_str();
    let tier = match argv[1].as_str() {
        "quick" => Tier::Quick,
        "thorough" => Tier::Thorough,
        _ => usage(),
    };
    let mut args = Args {
        tier,
        seed: seed_from_env(),
        worker: None,
        replay: None,
    };
    let mut i = 2;
    while i < argv.len() {
        match argv[i].as_str() {
            "--replay" => {
                args.replay = Some(PathBuf::from(argv.get(i + 1).unwrap_or_else(|| usage())));
                i += 2;
            }
            "--worker" => {
                let spec = argv.get(i + 1).unwrap_or_else(|| usage());
                let p: Vec<&str> = spec.split('/').collect();
                args.worker = Some((p[0].parse().unwrap(), p[1].parse().unwrap(), p[2].parse().unwrap()));
                i += 2;
            }
            _ => usage(),
        }
    }
    if id == "C18" {
        if let Some(p) = &args.replay {
            if p.extension().is_some_and(|e| e == "yml") {
                // a document found by the byte-level fuzz target
                vcore::engine::install_quiet_panic_hook();
                let text = std::fs::read_to_string(p).expect("replay file");
                match vcore::fuzzdec::run_c18_text(&text) {
                    None => {
                        println!("REPLAY property=C18 held");
                        std::process::exit(0)
                    }
                    Some(f) => {
                        println!("VIOLATION property=C18 replay={}", p.display());
                        println!("  signature: {}", f.sig);
                        println!("  detail: {}", f.msg);
                        std::process::exit(1)
                    }
                }
            }
        }
    }
    let code = match id {
        "C01" => drive::<vcore::c01::C01>(&args),
        "C02" => drive::<vcore::c02::C02>(&args),
        "C03" => drive::<vcore::c03::C03>(&args),
        "C10" => drive::<vcore::c10::C10>(&args),
        "C11" => drive::<vcore::c11::C11>(&args),
        "C16" => drive::<vcore::c16::C16>(&args),
        "C17" => drive::<vcore::c17::C17>(&args),
        "C19" => drive::<vcore::c19::C19>(&args),
        "C12" => drive::<vcore::c12::C12>(&args),
        "C08" => drive::<vcore::c08::C08>(&args),
        "C07" => drive::<vcore::c07::C07>(&args),
        "C14" => drive::<vcore::c14::C14>(&args),
        "C05" => drive::<vcore::c05::C05>(&args),
        "C06" => drive::<vcore::c06::C06>(&args),
        "C09" => drive::<vcore::c09::C09>(&args),
        "C13" => drive::<vcore::c13::C13>(&args),
        "C20" => drive::<vcore::c20::C20>(&args),
        "C04" => drive::<vcore::c04::C04>(&args),
        "C18" => drive::<vcore::c18::C18>(&args),
        "C15" => drive::<vcore::c15::C15>(&args),
        _ => {
            eprintln!("unknown property id {id}");
            2
        }
    };
    std::process::exit(code);
}
