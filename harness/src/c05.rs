//! C05 – timers fire exactly at their deadline and are never lost.

use crate::engine::*;
use crate::net::{self, du, st};
use crate::{vensure, vfail};
use des::prelude::*;
use des::time::{interval, sleep, sleep_until, timeout, MissedTickBehavior};
use proptest::prelude::*;
use serde::{Deserialize, Serialize};
use std::collections::BTreeMap;
use std::time::Duration as StdDuration;

/// durations in microseconds
pub const DURS: [u64; 16] = [
    0, 1_000, 2_000, 4_000, 5_000, 6_000, 10_000, 20_000, 50_000, 1_000_000, 7_000_000, 3_600_000_000,
    // deadlines that share a millisecond but differ below it
    200, 700, 1_200, 1_700,
];

#[derive(Clone, Debug, Serialize, Deserialize, PartialEq)]
pub enum Inner {
    Ready,
    Pending,
    Sleep(u8),
}

#[derive(Clone, Debug, Serialize, Deserialize, PartialEq)]
pub enum Beh {
    Burst,
    Delay,
    Skip,
}

#[derive(Clone, Debug, Serialize, Deserialize, PartialEq)]
pub enum Step {
    Sleep(u8),
    /// absolute deadline: DURS[i] after the start of the simulation
    SleepUntil(u8),
    Timeout(u8, Inner),
    /// period, behaviour, ticks, work between ticks
    Interval(u8, Beh, u8, u8),
    /// select!{ biased; sleep(a), sleep(b), [ready] }
    Select(u8, u8, bool),
    /// poll sleep(a) once, reset it to now + b, await it
    ResetThenAwait(u8, u8),
    /// poll sleep(a) once, then drop it
    PollOnceThenDrop(u8),
    /// two sleeps with the identical deadline now + a registered by this task (the first one polled first); then the
    /// first one is dropped (None) or reset to DURS[b] later (Some(b)) and the twin is awaited
    TwinDrop(u8, Option<u8>),
    /// spawn a child task (joined) running the script
    Spawn(Vec<Step>),
    /// sleep(Duration::MAX): never completes
    SleepForever,
    /// in the module's first incarnation: request shutdown and restart after DURS[i]; all tasks of the module are
    /// cancelled at the end of this event and every script starts over at the restart time (where this step is a no-op)
    ShutdownRestart(u8),
}

#[derive(Clone, Debug, Serialize, Deserialize)]
pub struct ModSpec {
    pub tasks: Vec<Vec<Step>>,
    /// unrelated self-messages at these instants (index into DURS)
    pub noise: Vec<u8>,
}

#[derive(Clone, Debug, Serialize, Deserialize)]
pub struct Case {
    pub mods: Vec<ModSpec>,
}

pub struct C05;

fn d(i: u8) -> u128 {
    DURS[i as usize % DURS.len()] as u128 * 1_000
}

// ------------------------------------------------------------------------------------------
// real execution

fn run_script(task: String, steps: Vec<Step>, inc: u8) -> std::pin::Pin<Box<dyn std::future::Future<Output = ()> + Send>> {
    Box::pin(async move {
        for (k, s) in steps.into_iter().enumerate() {
            match s {
                Step::Sleep(a) => {
                    sleep(du(d(a))).await;
                    net::log(&task, k as i64, 0);
                }
                Step::SleepUntil(a) => {
                    sleep_until(st(d(a))).await;
                    net::log(&task, k as i64, 0);
                }
                Step::Timeout(a, inner) => {
                    let code = match inner {
                        Inner::Ready => timeout(du(d(a)), std::future::ready(())).await.is_ok(),
                        Inner::Pending => timeout(du(d(a)), std::future::pending::<()>()).await.is_ok(),
                        Inner::Sleep(b) => timeout(du(d(a)), sleep(du(d(b)))).await.is_ok(),
                    };
                    net::log(&task, k as i64, code as i64);
                }
                Step::Interval(p, beh, ticks, work) => {
                    let mut iv = interval(du(d(p).max(1_000_000)));
                    iv.set_missed_tick_behavior(match beh {
                        Beh::Burst => MissedTickBehavior::Burst,
                        Beh::Delay => MissedTickBehavior::Delay,
                        Beh::Skip => MissedTickBehavior::Skip,
                    });
                    for _ in 0..ticks {
                        let t = iv.tick().await;
                        net::log(&task, k as i64, t.as_nanos() as i64);
                        sleep(du(d(work))).await;
                    }
                    net::log(&task, k as i64, -1);
                }
                Step::Select(a, b, ready) => {
                    let code = if ready {
                        tokio::select! {
                            biased;
                            _ = sleep(du(d(a))) => 1,
                            _ = sleep(du(d(b))) => 2,
                            _ = std::future::ready(()) => 3,
                        }
                    } else {
                        tokio::select! {
                            biased;
                            _ = sleep(du(d(a))) => 1,
                            _ = sleep(du(d(b))) => 2,
                        }
                    };
                    net::log(&task, k as i64, code);
                }
                Step::ResetThenAwait(a, b) => {
                    let s = sleep(du(d(a)));
                    tokio::pin!(s);
                    let first = tokio::select! {
                        biased;
                        _ = &mut s => 1,
                        _ = std::future::ready(()) => 0,
                    };
                    s.as_mut().reset(SimTime::now() + du(d(b)));
                    s.await;
                    net::log(&task, k as i64, first);
                }
                Step::PollOnceThenDrop(a) => {
                    let code = tokio::select! {
                        biased;
                        _ = sleep(du(d(a))) => 1,
                        _ = std::future::ready(()) => 0,
                    };
                    net::log(&task, k as i64, code);
                }
                Step::TwinDrop(a, reset) => {
                    let mut s1 = Box::pin(sleep(du(d(a))));
                    let s2 = sleep(du(d(a)));
                    tokio::pin!(s2);
                    let first = tokio::select! {
                        biased;
                        _ = &mut s1 => 1,
                        _ = &mut s2 => 2,
                        _ = std::future::ready(()) => 0,
                    };
                    match reset {
                        Some(b) if first == 0 => {
                            s1.as_mut().reset(SimTime::now() + du(d(a) + d(b) + 1_000_000));
                            // registered again at its new deadline, then left behind
                            let _ = tokio::select! {
                                biased;
                                _ = &mut s1 => 1,
                                _ = std::future::ready(()) => 0,
                            };
                            s2.await;
                            drop(s1);
                        }
                        _ => {
                            drop(s1);
                            s2.await;
                        }
                    }
                    net::log(&task, k as i64, first);
                }
                Step::Spawn(script) => {
                    let name = format!("{task}.{k}");
                    current().try_join(tokio::spawn(run_script(name, script, inc)));
                    net::log(&task, k as i64, 0);
                }
                Step::SleepForever => {
                    sleep(Duration::MAX).await;
                    net::log(&task, k as i64, 0);
                }
                Step::ShutdownRestart(a) => {
                    if inc == 1 {
                        net::log(&task, k as i64, 7);
                        current().shutdow_and_restart_in(du(d(a)));
                    } else {
                        net::log(&task, k as i64, 8);
                    }
                }
            }
        }
        net::log(&task, -1, 0);
    })
}

struct TimerMod {
    spec: ModSpec,
    inc: u8,
}

fn has_restart(steps: &[Step]) -> bool {
    steps.iter().any(|s| match s {
        Step::ShutdownRestart(_) => true,
        Step::Spawn(c) => has_restart(c),
        _ => false,
    })
}

impl Module for TimerMod {
    fn at_sim_start(&mut self, _: usize) {
        self.inc += 1;
        let restarting = self.spec.tasks.iter().any(|t| has_restart(t));
        for (i, script) in self.spec.tasks.iter().enumerate() {
            let h = tokio::spawn(run_script(format!("i{}:t{i}", self.inc), script.clone(), self.inc));
            // handles of a cancelled incarnation would be reported as errors: such modules only try_join
            if restarting {
                current().try_join(h);
            } else {
                current().join(h);
            }
        }
        if self.inc == 1 {
            for (k, n) in self.spec.noise.iter().enumerate() {
                schedule_at(Message::default().id(k as u16), st(d(*n) + 500_000));
            }
        }
    }
    fn handle_message(&mut self, _: Message) {}
}

// ------------------------------------------------------------------------------------------
// model: tasks do not communicate, so each script is a sequential program over `now`

/// (task name, step, code, now)
type L = (String, i64, i64, u128);

#[derive(Default)]
struct Flags {
    dropped_before_later: bool,
    equal_deadlines: bool,
    missed_tick: bool,
    forever: bool,
    restarted: bool,
    twin_cancelled: bool,
}

fn model_script(task: &str, steps: &[Step], start: u128, out: &mut Vec<L>, deadlines: &mut Vec<u128>, fl: &mut Flags, inc: u8, shutdown: &mut Option<(u128, u128)>) -> bool {
    let mut now = start;
    // a timer that was registered and then dropped / left behind at this deadline
    let mut leftover: Option<u128> = None;
    let note_wait = |until: u128, leftover: &Option<u128>, fl: &mut Flags| {
        if let Some(l) = leftover {
            if *l < until {
                fl.dropped_before_later = true;
            }
        }
    };
    for (k, s) in steps.iter().enumerate() {
        let k = k as i64;
        match s {
            Step::Sleep(a) => {
                let t = now + d(*a);
                note_wait(t, &leftover, fl);
                deadlines.push(t);
                now = t;
                out.push((task.into(), k, 0, now));
            }
            Step::SleepUntil(a) => {
                let t = d(*a).max(now);
                note_wait(t, &leftover, fl);
                deadlines.push(d(*a));
                now = t;
                out.push((task.into(), k, 0, now));
            }
            Step::Timeout(a, inner) => {
                let dl = now + d(*a);
                let (t, ok) = match inner {
                    Inner::Ready => (now, true),
                    Inner::Pending => (dl, false),
                    Inner::Sleep(b) => {
                        let it = now + d(*b);
                        if it <= dl {
                            if it < dl && it > now {
                                leftover = Some(dl);
                            }
                            (it, true)
                        } else {
                            leftover = Some(it);
                            (dl, false)
                        }
                    }
                };
                note_wait(t, &leftover, fl);
                deadlines.push(t);
                now = t;
                out.push((task.into(), k, ok as i64, now));
            }
            Step::Interval(p, beh, ticks, work) => {
                let p = d(*p).max(1_000_000);
                let mut next = now; // first tick is due immediately
                for _ in 0..*ticks {
                    let timeout = next;
                    let fire = now.max(timeout);
                    note_wait(fire, &leftover, fl);
                    now = fire;
                    next = if now > timeout + 5_000_000 {
                        fl.missed_tick = true;
                        match beh {
                            Beh::Burst => timeout + p,
                            Beh::Delay => now + p,
                            Beh::Skip => now + p - ((now - timeout) % p),
                        }
                    } else {
                        timeout + p
                    };
                    out.push((task.into(), k, timeout as i64, now));
                    deadlines.push(timeout);
                    now += d(*work);
                }
                out.push((task.into(), k, -1, now));
            }
            Step::Select(a, b, ready) => {
                let (ta, tb) = (now + d(*a), now + d(*b));
                let mut best = (ta, 1);
                if tb < best.0 {
                    best = (tb, 2);
                }
                if *ready && now < best.0 {
                    best = (now, 3);
                }
                // the losing sleeps were registered and are dropped now
                for t in [ta, tb] {
                    if t > best.0 {
                        leftover = Some(leftover.map_or(t, |l: u128| l.min(t)));
                    }
                }
                note_wait(best.0, &None, fl);
                deadlines.push(best.0);
                now = best.0;
                out.push((task.into(), k, best.1, now));
            }
            Step::ResetThenAwait(a, b) => {
                let first = (d(*a) == 0) as i64;
                if d(*a) > 0 {
                    leftover = Some(leftover.map_or(now + d(*a), |l: u128| l.min(now + d(*a))));
                }
                let t = now + d(*b);
                note_wait(t, &leftover, fl);
                deadlines.push(t);
                now = t;
                out.push((task.into(), k, first, now));
            }
            Step::PollOnceThenDrop(a) => {
                let code = (d(*a) == 0) as i64;
                if d(*a) > 0 {
                    leftover = Some(leftover.map_or(now + d(*a), |l: u128| l.min(now + d(*a))));
                }
                out.push((task.into(), k, code, now));
            }
            Step::TwinDrop(a, reset) => {
                let t = now + d(*a);
                let first = (d(*a) == 0) as i64;
                fl.twin_cancelled = fl.twin_cancelled || d(*a) > 0;
                note_wait(t, &leftover, fl);
                deadlines.push(t);
                now = t;
                if let (Some(b), 0) = (reset, first) {
                    // the reset timer stayed registered beyond the twin's deadline and is dropped now
                    let t1 = t + d(*b) + 1_000_000;
                    leftover = Some(leftover.map_or(t1, |l: u128| l.min(t1)));
                }
                out.push((task.into(), k, first, now));
            }
            Step::Spawn(script) => {
                out.push((task.into(), k, 0, now));
                let name = format!("{task}.{k}");
                // the child starts in the same instant
                if !model_script(&name, script, now, out, deadlines, fl, inc, shutdown) {
                    // child never finishes; the parent goes on
                }
            }
            Step::SleepForever => {
                fl.forever = true;
                return false;
            }
            Step::ShutdownRestart(a) => {
                if inc == 1 {
                    out.push((task.into(), k, 7, now));
                    // the earliest request decides (the generator puts at most one such step into a module)
                    if shutdown.map_or(true, |(t, _)| now < t) {
                        *shutdown = Some((now, now + d(*a)));
                    }
                } else {
                    out.push((task.into(), k, 8, now));
                }
            }
        }
    }
    out.push((task.into(), -1, 0, now));
    true
}

fn script_finishes(steps: &[Step]) -> bool {
    steps.iter().all(|s| match s {
        Step::SleepForever => false,
        Step::Spawn(c) => script_finishes(c),
        _ => true,
    }) && !steps.iter().any(|s| matches!(s, Step::SleepForever))
}

/// stop a script at the first SleepForever (nothing after it can run)
fn truncate(steps: &[Step]) -> Vec<Step> {
    let mut out = Vec::new();
    for s in steps {
        match s {
            Step::SleepForever => {
                out.push(s.clone());
                break;
            }
            Step::Spawn(c) => out.push(Step::Spawn(truncate(c))),
            _ => out.push(s.clone()),
        }
    }
    out
}

pub fn run_case(case: &Case) -> Result<(bool, Vec<&'static str>), Failure> {
    let mods: Vec<ModSpec> = case
        .mods
        .iter()
        .map(|m| ModSpec {
            tasks: m.tasks.iter().map(|t| truncate(t)).collect(),
            noise: m.noise.clone(),
        })
        .collect();
    net::log_clear();
    let mut sim = Sim::new(());
    for (i, m) in mods.iter().enumerate() {
        sim.node(format!("m{i}"), TimerMod { spec: m.clone(), inc: 0 });
    }
    // a deterministic event budget turns a livelock (time never advances) into a reportable failure
    fn count(steps: &[Step]) -> usize {
        steps
            .iter()
            .map(|s| match s {
                Step::Interval(_, _, t, _) => 2 * *t as usize + 2,
                Step::Spawn(c) => 2 + count(c),
                _ => 3,
            })
            .sum()
    }
    let budget = 500 + 20 * mods.iter().map(|m| m.noise.len() + m.tasks.iter().map(|t| count(t)).sum::<usize>()).sum::<usize>();
    let rt = Builder::seeded(9)
        .quiet()
        .cqueue_options(256, Duration::from_millis(20))
        .max_itr(budget)
        .build(sim.freeze());
    let res = rt.run();
    let log = net::log_take();
    if let Ok((_, t, p)) = &res {
        vensure!(
            p.event_count < budget,
            "event-budget-exhausted",
            "the simulation consumed its budget of {budget} events and is stuck at {} ns with {} events pending (livelock)",
            t.as_nanos(),
            p.remaining.len()
        );
    }
    let errs: Option<Vec<String>> = match &res {
        Ok(_) => None,
        Err(e) => Some(e.iter().map(|x| format!("{x}")).collect()),
    };
    drop(res);

    let mut fl = Flags::default();
    let mut unfinished_mods = Vec::new();
    for (i, m) in mods.iter().enumerate() {
        let path = format!("m{i}");
        let mut want: Vec<L> = Vec::new();
        let mut deadlines = Vec::new();
        let mut all_finish = true;
        let mut shutdown: Option<(u128, u128)> = None;
        for (t, script) in m.tasks.iter().enumerate() {
            model_script(&format!("i1:t{t}"), script, 0, &mut want, &mut deadlines, &mut fl, 1, &mut shutdown);
            if !script_finishes(script) {
                all_finish = false;
            }
        }
        if let Some((ts, tr)) = shutdown {
            // everything of the first incarnation after the instant of the request never happens ...
            want.retain(|e| e.3 <= ts);
            // ... and at the restart time every script starts over
            let mut none = None;
            for (t, script) in m.tasks.iter().enumerate() {
                model_script(&format!("i2:t{t}"), script, tr, &mut want, &mut deadlines, &mut fl, 2, &mut none);
            }
            fl.restarted = true;
            // such modules only try_join their tasks: no NotFinished is reported for them
            all_finish = true;
        }
        if !all_finish {
            unfinished_mods.push(path.clone());
        }
        deadlines.sort_unstable();
        if deadlines.windows(2).any(|w| w[0] == w[1] && w[0] > 0) {
            fl.equal_deadlines = true;
        }
        // per task sequences must match exactly
        let mut want_by: BTreeMap<String, Vec<(i64, i64, u128)>> = BTreeMap::new();
        for (t, k, c, now) in want {
            want_by.entry(t).or_default().push((k, c, now));
        }
        let mut got_by: BTreeMap<String, Vec<(i64, i64, u128)>> = BTreeMap::new();
        for r in log.iter().filter(|r| r.path == path) {
            got_by.entry(r.kind.clone()).or_default().push((r.a, r.b, r.now));
        }
        for (task, w) in &want_by {
            let empty = Vec::new();
            let g = got_by.get(task).unwrap_or(&empty);
            for (n, (ge, we)) in g.iter().zip(w.iter()).enumerate() {
                if ge != we {
                    let sig = if ge.0 == we.0 && ge.1 == we.1 {
                        if ge.2 > we.2 {
                            "timer-fired-late"
                        } else {
                            "timer-fired-early"
                        }
                    } else {
                        "timer-outcome"
                    };
                    vfail!(
                        sig,
                        "module {path} task {task}: log entry #{n} is (step {}, code {}, at {} ns), expected (step {}, code {}, at {} ns); script {:?}",
                        ge.0,
                        ge.1,
                        ge.2,
                        we.0,
                        we.1,
                        we.2,
                        m.tasks
                    );
                }
            }
            if g.len() < w.len() {
                let (k, c, now) = w[g.len()];
                vfail!(
                    "timer-never-fired",
                    "module {path} task {task}: step {k} should complete (code {c}) at {now} ns but never did; script {:?}",
                    m.tasks
                );
            }
            vensure!(g.len() == w.len(), "timer-outcome", "module {path} task {task}: {} log entries, expected {}", g.len(), w.len());
        }
        for task in got_by.keys() {
            vensure!(want_by.contains_key(task), "timer-outcome", "module {path}: unexpected task log '{task}'");
        }
    }
    match errs {
        None => vensure!(
            unfinished_mods.is_empty(),
            "run-ok-with-unfinished-task",
            "run() returned Ok although {:?} hold tasks that can never finish",
            unfinished_mods
        ),
        Some(list) => {
            for e in &list {
                vensure!(
                    e.contains("NotFinished") && unfinished_mods.iter().any(|m| e.starts_with(&format!("{m}:"))),
                    "run-returned-error",
                    "run() reported '{e}', expected only NotFinished for {:?}",
                    unfinished_mods
                );
            }
            vensure!(!unfinished_mods.is_empty(), "run-returned-error", "run() returned errors {:?} although every task finishes", list);
        }
    }
    let mut labels = Vec::new();
    if fl.dropped_before_later {
        labels.push("dropped/left-behind-timer-precedes-awaited-deadline");
    }
    if fl.equal_deadlines {
        labels.push("equal-deadlines");
    }
    if fl.missed_tick {
        labels.push("interval-missed-tick");
    }
    if fl.forever {
        labels.push("far-future-sleep");
    }
    if fl.twin_cancelled {
        labels.push("twin-timer-of-same-deadline-cancelled");
    }
    if fl.restarted {
        labels.push("module-restart");
    }
    if mods.iter().any(|m| !m.noise.is_empty()) {
        labels.push("unrelated-traffic");
    }
    Ok((fl.dropped_before_later || fl.equal_deadlines || fl.missed_tick, labels))
}

impl Prop for C05 {
    const ID: &'static str = "C05";
    type Case = Case;

    fn rule() -> String {
        "proptest: 1..3 modules x 1..4 tasks, each a script over Sleep | SleepUntil | Timeout{Ready,Pending,Sleep} | Interval{period, Burst/Delay/Skip, \
         ticks, work} | select!{biased; sleep, sleep, [ready]} | ResetThenAwait | PollOnceThenDrop | TwinDrop (two sleeps of one deadline in one task, the first cancelled or reset, the twin awaited) | Spawn(child script) | sleep(Duration::MAX) | one shutdown-and-restart request per module, with \
         durations from a small lattice (0, 0.2/0.7/1.2/1.7 ms, 1..6 ms, 10/20/50 ms, 1 s, 7 s, 1 h) so that equal deadlines, dropped timers preceding live ones and \
         already-elapsed deadlines are frequent, plus unrelated self-messages. Oracle: an exact sequential model per task (tasks do not \
         communicate; after a shutdown request nothing later than that instant happens and every script starts over at the restart time): completion instants and outcomes (Ok/Elapsed, select branch, scheduled tick instants with the documented 5 ms missed-tick \
         rule) must match log entry by log entry; run() is Ok unless a task ends in a far-future wait (then exactly NotFinished for that module). \
         Non-trivial iff a registered timer is dropped/reset/left behind while a later deadline of the same task is still awaited, or two equal \
         deadlines exist in a module, or an interval misses a tick."
            .into()
    }
    fn assumptions() -> Vec<String> {
        vec![
            "no task communicates with another one, so the per-task model is exact".into(),
            "the reported end time of the run is not asserted (wake-up events of dropped timers still fire as events)".into(),
        ]
    }
    fn plan(tier: Tier) -> Plan {
        Plan {
            shards: tier.pick(4, 16),
            cases_per_shard: tier.pick(1_500, 30_000),
            watchdog: StdDuration::from_secs(tier.pick(300, 3600)),
        }
    }
    fn strategy(tier: Tier) -> BoxedStrategy<Case> {
        let n = DURS.len() as u8;
        let dur = prop_oneof![8 => 0u8..9, 2 => 9u8..12, 3 => 12u8..n];
        let beh = prop_oneof![Just(Beh::Burst), Just(Beh::Delay), Just(Beh::Skip)];
        let inner = prop_oneof![Just(Inner::Ready), Just(Inner::Pending), dur.clone().prop_map(Inner::Sleep)];
        let leaf = prop_oneof![
            4 => dur.clone().prop_map(Step::Sleep),
            2 => dur.clone().prop_map(Step::SleepUntil),
            3 => (dur.clone(), inner).prop_map(|(a, i)| Step::Timeout(a, i)),
            2 => (1u8..9, beh, 1u8..5, 0u8..9).prop_map(|(p, b, t, w)| Step::Interval(p, b, t, w)),
            3 => (dur.clone(), dur.clone(), any::<bool>()).prop_map(|(a, b, r)| Step::Select(a, b, r)),
            2 => (dur.clone(), dur.clone()).prop_map(|(a, b)| Step::ResetThenAwait(a, b)),
            3 => dur.clone().prop_map(Step::PollOnceThenDrop),
            2 => (dur.clone(), proptest::option::of(dur.clone())).prop_map(|(a, r)| Step::TwinDrop(a, r)),
        ];
        let max_steps = tier.pick(8, 14);
        let script = proptest::collection::vec(leaf.clone(), 0..max_steps);
        let step = prop_oneof![12 => leaf, 1 => script.prop_map(Step::Spawn)];
        let forever = prop_oneof![19 => Just(None), 1 => Just(Some(Step::SleepForever))];
        let task = (proptest::collection::vec(step, 0..max_steps), forever).prop_map(|(mut v, f)| {
            v.extend(f);
            v
        });
        let m = (
            proptest::collection::vec(task, 1..=4),
            proptest::collection::vec(dur.clone(), 0..4),
            proptest::option::weighted(0.25, (any::<u16>(), 0u8..9)),
        )
            .prop_map(|(mut tasks, noise, restart)| {
                // at most one shutdown/restart request per module (two in one instant would be ambiguous)
                if let Some((pos, delay)) = restart {
                    let t0 = &mut tasks[0];
                    let at = idx(pos, t0.len() + 1);
                    t0.insert(at, Step::ShutdownRestart(delay));
                }
                ModSpec { tasks, noise }
            });
        proptest::collection::vec(m, 1..=3).prop_map(|mods| Case { mods }).boxed()
    }
    fn run(case: &Case) -> Outcome {
        match run_case(case) {
            Ok((nt, labels)) => Outcome::ok(nt, labels),
            Err(f) => Outcome::failed(f),
        }
    }
}
