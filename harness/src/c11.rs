//! C11 – runtime limits stop the run exactly where specified without losing events.

use crate::engine::*;
use crate::prog::{self, BuilderCall, ExecOpts, Limit, Program};
use crate::vensure;
use proptest::prelude::*;
use serde::{Deserialize, Serialize};
use std::time::Duration;

#[derive(Clone, Debug, Serialize, Deserialize)]
pub enum CountSpec {
    Abs(u8),
    /// number of events of the program + k
    TotalPlus(i8),
}

#[derive(Clone, Debug, Serialize, Deserialize)]
pub enum TimeSpec {
    /// timestamp of node idx(i) shifted by -1/0/+1 ns
    Node(u16, i8),
    /// start + k ns
    Start(u32),
}

#[derive(Clone, Debug, Serialize, Deserialize)]
pub enum LimitSpec {
    /// RuntimeLimit::None as a leaf
    Never,
    Count(CountSpec),
    Time(TimeSpec),
    And(Box<LimitSpec>, Box<LimitSpec>),
    Or(Box<LimitSpec>, Box<LimitSpec>),
}

#[derive(Clone, Debug, Serialize, Deserialize)]
pub enum CallSpec {
    MaxItr(CountSpec),
    MaxTime(TimeSpec),
    Limit(LimitSpec),
}

#[derive(Clone, Debug, Serialize, Deserialize)]
pub struct Case {
    pub program: Program,
    pub calls: Vec<CallSpec>,
    /// instead of builder limits: a schedule of step calls (`dispatch_n_events` = a count limit for one step,
    /// `dispatch_events_until` = a time limit for one step) from C10's generator, judged by C10's oracle: every step
    /// must dispatch exactly the prefix its limit admits and lose nothing
    #[serde(default)]
    pub stepped: Option<Vec<crate::c10::StepSpec>>,
}

pub struct C11;

struct Ctx {
    total: usize,
    times: Vec<u128>,
    start: u128,
}

impl Ctx {
    fn count(&self, c: &CountSpec) -> usize {
        match c {
            CountSpec::Abs(k) => *k as usize,
            CountSpec::TotalPlus(k) => (self.total as i64 + *k as i64).max(0) as usize,
        }
    }
    fn time(&self, t: &TimeSpec) -> u128 {
        match t {
            TimeSpec::Node(i, off) if !self.times.is_empty() => {
                (self.times[idx(*i, self.times.len())] as i128 + *off as i128).max(0) as u128
            }
            TimeSpec::Node(_, _) => self.start,
            TimeSpec::Start(k) => self.start + *k as u128,
        }
    }
    fn limit(&self, l: &LimitSpec) -> Limit {
        match l {
            LimitSpec::Never => Limit::Never,
            LimitSpec::Count(c) => Limit::Count(self.count(c)),
            LimitSpec::Time(t) => Limit::Time(self.time(t)),
            LimitSpec::And(a, b) => Limit::And(Box::new(self.limit(a)), Box::new(self.limit(b))),
            LimitSpec::Or(a, b) => Limit::Or(Box::new(self.limit(a)), Box::new(self.limit(b))),
        }
    }
    fn call(&self, c: &CallSpec) -> BuilderCall {
        match c {
            CallSpec::MaxItr(c) => BuilderCall::MaxItr(self.count(c)),
            CallSpec::MaxTime(t) => BuilderCall::MaxTime(self.time(t)),
            CallSpec::Limit(l) => BuilderCall::Limit(self.limit(l)),
        }
    }
}

fn run_case(case: &Case) -> Result<(bool, Vec<&'static str>), Failure> {
    let res = prog::resolve(&case.program);
    let ctx = Ctx {
        total: res.time.len(),
        times: res.time.clone(),
        start: case.program.start_ns as u128,
    };
    let calls: Vec<BuilderCall> = case.calls.iter().map(|c| ctx.call(c)).collect();
    // several Builder calls compose with Or
    let limit: Option<Limit> = calls
        .iter()
        .map(BuilderCall::as_limit)
        .reduce(|a, b| Limit::Or(Box::new(a), Box::new(b)));
    // the uninterrupted, unlimited run on the real runtime defines "the time-ordered event sequence"
    let whole = prog::execute(&case.program, &ExecOpts::default())?;
    let limited = prog::execute(
        &case.program,
        &ExecOpts {
            calls: calls.clone(),
            ..Default::default()
        },
    )?;
    // own evaluation of the longest admitted prefix
    let mut k = 0usize;
    for (i, (_, t)) in whole.trace.iter().enumerate() {
        if limit.as_ref().is_some_and(|l| l.stops(i + 1, *t)) {
            break;
        }
        k = i + 1;
    }
    let expect = &whole.trace[..k];
    prog::diff_traces(
        &format!("run limited by {limit:?} vs the admitted prefix of the unlimited run"),
        "limit-prefix-mismatch",
        &limited.trace,
        expect,
    )?;
    vensure!(
        limited.event_count == k,
        "event-count-mismatch",
        "event_count {} but the limit admits {k} events",
        limited.event_count
    );
    let end = expect.last().map(|x| x.1).unwrap_or(ctx.start);
    vensure!(
        limited.end_time == end,
        "end-time-mismatch",
        "reported end time {} ns, the last dispatched event had {} ns",
        limited.end_time,
        end
    );
    // nothing beyond the stopping point is lost: remaining (multiset with timestamps) == model pending
    let m = prog::model(&case.program, 0, &calls, None);
    let mut got = limited.remaining.clone();
    let mut want = m.remaining.clone();
    got.sort_unstable();
    want.sort_unstable();
    if m.trace.len() == k && limited.trace == m.trace {
        vensure!(
            got == want,
            "remaining-events-mismatch",
            "remaining events {:?} but the events scheduled and not dispatched are {:?}",
            got,
            want
        );
    }
    // independent of tie order: handled + remaining == everything scheduled by the handled events
    let mut all: Vec<(u32, u128)> = limited.trace.iter().chain(limited.remaining.iter()).copied().collect();
    all.sort_unstable();
    let mut sched: Vec<(u32, u128)> = res.roots.iter().map(|&i| (i as u32, res.time[i])).collect();
    for (id, _) in &limited.trace {
        for &c in &res.children[*id as usize] {
            sched.push((c as u32, res.time[c]));
        }
    }
    sched.sort_unstable();
    vensure!(
        all == sched,
        "events-lost-or-invented",
        "dispatched + remaining = {:?} differs from what was scheduled = {:?}",
        all,
        sched
    );
    let truncated = k < whole.trace.len();
    let boundary_n = calls.iter().any(|c| contains_count(&c.as_limit(), ctx.total));
    let boundary_t = limit.as_ref().is_some_and(|l| time_boundary(l, &whole.trace));
    let nested = calls.iter().any(|c| c.as_limit().depth() >= 2) || calls.len() >= 2;
    let mut labels = Vec::new();
    if truncated {
        labels.push("limit-truncates");
    }
    if boundary_n {
        labels.push("count==total");
    }
    if boundary_t {
        labels.push("timestamp==T");
    }
    if nested {
        labels.push("nested-or-composed");
    }
    if calls.is_empty() {
        labels.push("no-limit");
    }
    fn has_never(l: &LimitSpec) -> bool {
        match l {
            LimitSpec::Never => true,
            LimitSpec::And(a, b) | LimitSpec::Or(a, b) => has_never(a) || has_never(b),
            _ => false,
        }
    }
    if case.calls.iter().any(|c| matches!(c, CallSpec::Limit(l) if has_never(l))) {
        labels.push("None-as-a-leaf-of-the-limit-tree");
    }
    Ok((truncated && (boundary_n || boundary_t || nested), labels))
}

fn contains_count(l: &Limit, n: usize) -> bool {
    match l {
        Limit::Count(c) => *c == n,
        Limit::Time(_) | Limit::Never => false,
        Limit::And(a, b) | Limit::Or(a, b) => contains_count(a, n) || contains_count(b, n),
    }
}
fn time_boundary(l: &Limit, trace: &[(u32, u128)]) -> bool {
    match l {
        Limit::Count(_) | Limit::Never => false,
        Limit::Time(t) => trace.iter().any(|(_, x)| x == t),
        Limit::And(a, b) | Limit::Or(a, b) => time_boundary(a, trace) || time_boundary(b, trace),
    }
}

impl Prop for C11 {
    const ID: &'static str = "C11";
    type Case = Case;

    fn rule() -> String {
        "event programs (as C02/C03) x 0..3 Builder calls max_itr(n) / max_time(T) / limit(tree of EventCount, SimTime, None, CombinedAnd, CombinedOr, depth \
         <= 3) with n in {0,1,total-2..total+2} and T in {event timestamps -1/0/+1ns, start+k}. One case in seven uses the limits of single steps instead (dispatch_n_events / dispatch_events_until schedules of C10's generator, judged by C10's oracle). Oracle: the limited run handles exactly the longest \
         prefix of the unlimited run (on the real runtime) that an independent evaluator of the limit admits; event_count; end time == timestamp of the \
         last handled event; remaining events (multiset with timestamps) == RefSim pending at the stop; handled + remaining == scheduled. Non-trivial \
         iff the limit truncates the run AND (a count equals the total, or a timestamp equals T, or the limit is nested/composed)."
            .into()
    }
    fn assumptions() -> Vec<String> {
        vec!["several Builder limit calls compose with Or (as the anchor states)".into()]
    }
    fn plan(tier: Tier) -> Plan {
        Plan {
            shards: tier.pick(4, 16),
            cases_per_shard: tier.pick(3_000, 20_000),
            watchdog: Duration::from_secs(tier.pick(300, 3600)),
        }
    }
    fn strategy(tier: Tier) -> BoxedStrategy<Case> {
        let max_nodes = tier.pick(30, 100);
        let count = prop_oneof![(0u8..3).prop_map(CountSpec::Abs), (-2i8..=2).prop_map(CountSpec::TotalPlus), (-20i8..0).prop_map(CountSpec::TotalPlus)];
        let time = prop_oneof![
            4 => (any::<u16>(), -1i8..=1).prop_map(|(i, o)| TimeSpec::Node(i, o)),
            1 => (0u32..5000).prop_map(TimeSpec::Start),
        ];
        let leaf = prop_oneof![4 => count.clone().prop_map(LimitSpec::Count), 4 => time.clone().prop_map(LimitSpec::Time), 1 => Just(LimitSpec::Never)];
        let tree = leaf.prop_recursive(2, 6, 2, |inner| {
            prop_oneof![
                (inner.clone(), inner.clone()).prop_map(|(a, b)| LimitSpec::And(Box::new(a), Box::new(b))),
                (inner.clone(), inner).prop_map(|(a, b)| LimitSpec::Or(Box::new(a), Box::new(b))),
            ]
        });
        let call = prop_oneof![
            2 => count.prop_map(CallSpec::MaxItr),
            2 => time.prop_map(CallSpec::MaxTime),
            3 => tree.prop_map(CallSpec::Limit),
        ];
        let plain = (prog::program_strategy(max_nodes, true, false), proptest::collection::vec(call, 0..3)).prop_map(|(program, calls)| Case { program, calls, stepped: None });
        // one case in seven exercises the limits that the step functions install for a single step
        let stepped = crate::c10::C10::strategy(tier).prop_map(|c| Case { program: c.program, calls: Vec::new(), stepped: Some(c.steps) });
        prop_oneof![6 => plain, 1 => stepped].boxed()
    }
    fn run(case: &Case) -> Outcome {
        // (not on the BinaryHeap build: C10 itself runs there)
        #[cfg(not(vcheck_heap_backend))]
        if let Some(steps) = &case.stepped {
            let c = crate::c10::Case { program: case.program.clone(), steps: steps.clone() };
            return match crate::c10::run_case(&c) {
                Ok((_, _)) => Outcome::ok(true, vec!["limits-of-single-steps"]),
                Err(f) => Outcome::failed(Failure::new(f.sig.clone(), format!("step limits (oracle of C10, {}): {}", f.sig, f.msg))),
            };
        }
        match run_case(case) {
            Ok((nt, labels)) => Outcome::ok(nt, labels),
            Err(f) => Outcome::failed(f),
        }
    }
    #[cfg(not(vcheck_heap_backend))]
    fn extra(tier: Tier, seed: u64, ev: &mut ExtraEvidence) -> Vec<Violation> {
        if tier != Tier::Thorough {
            return Vec::new();
        }
        let mut v = heap_backend_extra("C11", seed, ev);
        v.extend(fuzz_extra("C11", seed, ev));
        v
    }
}
