//! Shared helpers for the simulation-level checks: a per-thread trace log and small utilities.

use des::prelude::*;
use std::cell::RefCell;

#[derive(Clone, Debug, PartialEq, Eq, PartialOrd, Ord)]
pub struct Rec {
    pub path: String,
    pub kind: String,
    pub now: u128,
    pub a: i64,
    pub b: i64,
}

thread_local! {
    pub static LOG: RefCell<Vec<Rec>> = const { RefCell::new(Vec::new()) };
}

pub fn log_clear() {
    LOG.with(|l| l.borrow_mut().clear());
}

pub fn log_take() -> Vec<Rec> {
    LOG.with(|l| std::mem::take(&mut *l.borrow_mut()))
}

/// Appends a record for the module that is currently in scope.
pub fn log(kind: &str, a: i64, b: i64) {
    let path = try_current().map(|c| c.path().as_str().to_string()).unwrap_or_else(|| "<none>".into());
    log_as(&path, kind, a, b);
}

pub fn log_as(path: &str, kind: &str, a: i64, b: i64) {
    LOG.with(|l| {
        l.borrow_mut().push(Rec {
            path: path.to_string(),
            kind: kind.to_string(),
            now: SimTime::now().as_nanos(),
            a,
            b,
        })
    });
}

pub fn st(ns: u128) -> SimTime {
    SimTime::from_duration(du(ns))
}
pub fn du(ns: u128) -> Duration {
    Duration::new((ns / 1_000_000_000) as u64, (ns % 1_000_000_000) as u32)
}

pub fn fmt_recs(recs: &[Rec]) -> String {
    recs.iter()
        .map(|r| format!("{}@{}:{}({},{})", r.path, r.now, r.kind, r.a, r.b))
        .collect::<Vec<_>>()
        .join(" ")
}
