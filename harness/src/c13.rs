//! C13 – a panicking module is contained, attributed and does not disturb other modules.

use crate::engine::*;
use crate::net::{self, du, Rec};
use crate::{vensure, vfail};
use des::net::channel::{ChannelDropBehaviour, ChannelMetrics};
use des::net::module::Stereotyp;
use des::net::{JoinError, PanicError};
use des::prelude::*;
use des::time::sleep;
use proptest::prelude::*;
use serde::{Deserialize, Serialize};
use std::cell::RefCell;
use std::collections::BTreeSet;
use std::time::Duration as StdDuration;

#[derive(Clone, Debug, Serialize, Deserialize, PartialEq)]
pub enum Place {
    /// the k-th handle_message call of the module (1-based)
    Handle(u8),
    /// the last at_sim_start stage
    Start,
    /// the first of the two at_sim_start stages (after the module set up its timers and its task): des still calls
    /// the remaining stage, which is tolerated; messages and wake-ups must not reach the module any more
    Start0,
    End,
    /// the module shuts itself down after the first message it handles, with a restart 2.5 ms later, and the start-up
    /// of that second incarnation panics (true: in its last stage, false: in its first)
    Restart(bool),
    /// the j-th tick of the module's joined task (1-based)
    Task(u8),
}

#[derive(Clone, Debug, Serialize, Deserialize)]
pub struct Fault {
    pub module: u8,
    pub place: Place,
    /// stereotype SUBPROCESS (panics are caught) instead of HOST
    pub caught: bool,
    /// for Handle: do the handler's normal work (forwarding) before the fault
    pub after_work: bool,
    /// the module starts with the opposite stereotype and switches to the one `caught` describes inside the very
    /// callback that panics (synchronous callbacks only): the stereotype in force when the panic is raised counts
    #[serde(default)]
    pub flip: bool,
    /// for End: the module shuts itself down (no restart) after the first message it handles, so it is already
    /// inactive - for a reason other than a panic - when its at_sim_end panics
    #[serde(default)]
    pub shutdown_first: bool,
    /// for Task: the module shuts itself down 30 ms into the run, well after its joined task panicked; the task's
    /// panic still has to be reported by run()
    #[serde(default)]
    pub shutdown_late: bool,
}

#[derive(Clone, Debug, Serialize, Deserialize)]
pub struct Case {
    /// probe for the known finding: also assert that no task of a panicked module resumes during tear-down
    #[serde(default)]
    pub probe_known: bool,
    pub n: u8,
    /// self timers: (module, time ms, ttl of the ping it starts)
    pub timers: Vec<(u8, u16, u8)>,
    /// ticks of the task of every module
    pub ticks: Vec<u8>,
    pub faults: Vec<Fault>,
}

pub struct C13;

struct R {
    dead_flag: std::sync::Arc<std::sync::atomic::AtomicBool>,
    timers: Vec<(u16, u8)>,
    ticks: u8,
    fault: Option<Fault>,
    silent: bool,
    handled: u8,
    dead: bool,
    /// how often the module was started (1 = simulation start, 2 = after its restart)
    starts: u8,
}

impl R {
    /// returns true if the callback must stop here (twin), panics in the real run
    fn fault_here(&mut self, what: &str) -> bool {
        net::log("fault", 0, 0);
        if self.silent {
            self.dead = true;
            self.dead_flag.store(true, std::sync::atomic::Ordering::SeqCst);
            true
        } else {
            if let Some(f) = &self.fault {
                if f.flip {
                    current().set_stereotyp(if f.caught { Stereotyp::SUBPROCESS } else { Stereotyp::HOST });
                }
            }
            panic!("injected fault in {what}");
        }
    }
}

impl Module for R {
    fn num_sim_start_stages(&self) -> usize {
        2
    }
    fn at_sim_start(&mut self, stage: usize) {
        if self.dead {
            return;
        }
        net::log("start", stage as i64, 0);
        if stage == 0 {
            self.starts += 1;
            for (k, (t, _)) in self.timers.iter().enumerate() {
                schedule_in(Message::default().kind(1).id(k as u16), du(*t as u128 * 1_000_000 + (k as u128 + 1) * 13_000));
            }
            if matches!(&self.fault, Some(Fault { place: Place::Task(_), shutdown_late: true, .. })) {
                schedule_in(Message::default().kind(9), du(30_000_777));
            }
            if self.ticks > 0 {
                let ticks = self.ticks;
                let task_fault = match &self.fault {
                    Some(Fault { place: Place::Task(j), .. }) => Some(*j),
                    _ => None,
                };
                let silent = self.silent;
                let dead = self.dead_flag.clone();
                current().try_join(tokio::spawn(async move {
                    for j in 1..=ticks {
                        sleep(Duration::from_micros(2_003)).await;
                        if dead.load(std::sync::atomic::Ordering::SeqCst) {
                            // the silent twin of a deactivated module: its tasks are never resumed
                            return;
                        }
                        net::log("tick", j as i64, 0);
                        if task_fault == Some(j) {
                            net::log("fault", 1, 0);
                            if silent {
                                return;
                            }
                            panic!("injected fault in task");
                        }
                    }
                }));
            }
            if matches!(self.fault, Some(Fault { place: Place::Start0, .. })) && self.fault_here("at_sim_start (first stage)") {}
            if self.starts == 2 && matches!(self.fault, Some(Fault { place: Place::Restart(false), .. })) && self.fault_here("at_sim_start of the restart (first stage)") {}
        } else if matches!(self.fault, Some(Fault { place: Place::Start, .. })) && self.fault_here("at_sim_start") {
        } else if self.starts == 2 && matches!(self.fault, Some(Fault { place: Place::Restart(true), .. })) && self.fault_here("at_sim_start of the restart") {
        }
    }
    fn handle_message(&mut self, msg: Message) {
        if self.dead {
            return;
        }
        if msg.header().kind == 9 {
            net::log("shutdown", 1, 0);
            current().shutdown();
            return;
        }
        self.handled += 1;
        let (kind, id, ttl) = (msg.header().kind, msg.header().id, msg.header().src[0]);
        net::log("msg", kind as i64, id as i64 * 1000 + ttl as i64);
        let hit = matches!(&self.fault, Some(Fault { place: Place::Handle(k), .. }) if *k == self.handled);
        let after = self.fault.as_ref().map_or(false, |f| f.after_work);
        if hit && !after && self.fault_here("handle_message") {
            return;
        }
        if kind == 1 {
            let ttl = self.timers[id as usize].1;
            send(Message::default().kind(2).id(id).src([ttl, 0, 0, 0, 0, 0]), "out");
        } else if ttl > 0 {
            send(Message::default().kind(2).id(id).src([ttl - 1, 0, 0, 0, 0, 0]), "out");
        }
        if hit && after && self.fault_here("handle_message") {}
        if self.handled == 1 && matches!(&self.fault, Some(Fault { place: Place::End, shutdown_first: true, .. })) {
            net::log("shutdown", 0, 0);
            current().shutdown();
        }
        if self.handled == 1 && matches!(&self.fault, Some(Fault { place: Place::Restart(_), .. })) {
            net::log("shutdown", 2, 0);
            current().shutdow_and_restart_in(du(2_500_123));
        }
    }
    fn at_sim_end(&mut self) -> Result<(), RuntimeError> {
        if self.dead {
            return Ok(());
        }
        net::log("end", 0, 0);
        if matches!(self.fault, Some(Fault { place: Place::End, .. })) && self.fault_here("at_sim_end") {}
        Ok(())
    }
}

struct RunOut {
    log: Vec<Rec>,
    /// paths named by PanicError / JoinError entries
    panic_paths: Vec<String>,
    join_paths: Vec<(String, String)>,
    other_errors: Vec<String>,
    active: Vec<bool>,
}

fn faults_by_module(case: &Case, n: usize) -> Vec<Option<Fault>> {
    let mut v: Vec<Option<Fault>> = vec![None; n];
    for f in &case.faults {
        let m = f.module as usize % n;
        if v[m].is_none() {
            v[m] = Some(f.clone());
        }
    }
    v
}

fn run_ring(case: &Case, silent: bool) -> Result<RunOut, Failure> {
    let n = (case.n as usize).clamp(2, 6);
    let faults = faults_by_module(case, n);
    net::log_clear();
    let mut sim = Sim::new(());
    for i in 0..n {
        let timers: Vec<(u16, u8)> = case.timers.iter().filter(|t| t.0 as usize % n == i).map(|t| (t.1, t.2 % 12)).collect();
        sim.node(
            format!("r{i}"),
            R {
                dead_flag: Default::default(),
                timers,
                ticks: case.ticks.get(i).copied().unwrap_or(0) % 10,
                fault: faults[i].clone(),
                silent,
                handled: 0,
                dead: false,
                starts: 0,
            },
        );
    }
    for i in 0..n {
        let ch = Channel::new(ChannelMetrics::new(0, Duration::from_micros(1_001), Duration::ZERO, ChannelDropBehaviour::Queue(None)));
        sim.gate(format!("r{i}"), "out").connect(sim.gate(format!("r{}", (i + 1) % n), "in"), Some(ch));
    }
    let refs: Vec<ModuleRef> = (0..n).map(|i| sim.get(&ObjectPath::from(format!("r{i}"))).unwrap()).collect();
    for (i, f) in faults.iter().enumerate() {
        if let Some(f) = f {
            // a flipping module starts with the other stereotype (task faults cannot flip: kept as they are)
            let initial = if f.flip && !matches!(f.place, Place::Task(_)) { !f.caught } else { f.caught };
            refs[i].set_stereotyp(if initial { Stereotyp::SUBPROCESS } else { Stereotyp::HOST });
        }
    }
    let rt = Builder::seeded(23).quiet().max_itr(50_000).build(sim.freeze());
    let res = match catch(|| rt.run()) {
        Ok(r) => r,
        Err((msg, loc)) => {
            drop(refs);
            vfail!("simulator-aborted", "a module panic escaped run(): {msg} @ {loc}")
        }
    };
    let log = net::log_take();
    let mut out = RunOut {
        log,
        panic_paths: Vec::new(),
        join_paths: Vec::new(),
        other_errors: Vec::new(),
        active: refs.iter().map(|r| r.is_active()).collect(),
    };
    if let Err(e) = &res {
        for item in e.iter() {
            if let Some(p) = item.as_any().downcast_ref::<PanicError>() {
                out.panic_paths.push(p.path.as_str().to_string());
            } else if let Some(j) = item.as_any().downcast_ref::<JoinError>() {
                out.join_paths.push((j.path.as_str().to_string(), format!("{:?}", j.kind).chars().take(12).collect()));
            } else {
                out.other_errors.push(format!("{item}"));
            }
        }
    }
    drop(refs);
    drop(res);
    Ok(out)
}

thread_local! {
    static GOLDEN: RefCell<Option<Vec<Rec>>> = const { RefCell::new(None) };
}

/// A fixed small simulation; its trace in a fresh process is the reference for "still usable afterwards".
pub fn canonical_followup() -> Result<Vec<Rec>, Failure> {
    let case = Case {
        probe_known: false,
        n: 3,
        timers: vec![(0, 1, 4), (1, 2, 2), (2, 2, 5), (0, 7, 1)],
        ticks: vec![2, 0, 3],
        faults: vec![],
    };
    let out = run_ring(&case, false)?;
    vensure!(
        out.panic_paths.is_empty() && out.join_paths.is_empty() && out.other_errors.is_empty(),
        "followup-simulation-failed",
        "the canonical follow-up simulation returned errors"
    );
    Ok(out.log)
}

pub fn check_followup(what: &str) -> Result<(), Failure> {
    let golden = GOLDEN.with(|g| g.borrow().clone());
    let Some(golden) = golden else { return Ok(()) };
    let now = canonical_followup()?;
    vensure!(
        now == golden,
        "followup-simulation-differs",
        "after {what} a canonical simulation in the same process behaves differently from a fresh process: {} vs {} log entries",
        now.len(),
        golden.len()
    );
    Ok(())
}

pub fn ensure_golden() -> Result<(), Failure> {
    if GOLDEN.with(|g| g.borrow().is_none()) {
        let t = canonical_followup()?;
        GOLDEN.with(|g| *g.borrow_mut() = Some(t));
    }
    Ok(())
}

pub fn run_case(case: &Case) -> Result<(bool, Vec<&'static str>, bool), Failure> {
    ensure_golden()?;
    let n = (case.n as usize).clamp(2, 6);
    let faults = faults_by_module(case, n);
    let real = run_ring(case, false)?;
    let twin = run_ring(case, true)?;
    vensure!(
        twin.panic_paths.is_empty() && twin.join_paths.is_empty() && twin.other_errors.is_empty(),
        "harness-twin-error",
        "the silent twin run returned errors {:?} {:?}",
        twin.panic_paths,
        twin.join_paths
    );
    // which faults triggered (both runs must agree: they are identical up to each fault)
    let mut triggered_cb: BTreeSet<usize> = BTreeSet::new();
    let mut triggered_task: BTreeSet<usize> = BTreeSet::new();
    for r in real.log.iter().filter(|r| r.kind == "fault") {
        let m: usize = r.path[1..].parse().unwrap();
        if r.a == 0 {
            triggered_cb.insert(m);
        } else {
            triggered_task.insert(m);
        }
    }
    let mut alive_after_first = 0;
    let mut teardown_resume = false;
    let mut traffic_pending = false;
    let first_fault_time = real.log.iter().find(|r| r.kind == "fault").map(|r| r.now);
    // 1. every module without a callback fault sees the same history in both runs
    for i in 0..n {
        let path = format!("r{i}");
        let a: Vec<&Rec> = real.log.iter().filter(|r| r.path == path).collect();
        let b: Vec<&Rec> = twin.log.iter().filter(|r| r.path == path).collect();
        if triggered_cb.contains(&i) {
            // the faulty module must fall silent: no message or wake-up after the panic
            let pos = a.iter().position(|r| r.kind == "fault").unwrap();
            // Known finding: at_sim_end is also invoked on a deactivated module and drives its runtime once, so a task
            // whose timer expired meanwhile resumes during tear-down. Entries after the module's own "end" record are
            // that shape; anything before it is a message / wake-up delivered during the simulation.
            let end_pos = a.iter().position(|r| r.kind == "end").unwrap_or(a.len()).max(pos + 1);
            let at_teardown = a[end_pos..].iter().filter(|r| r.kind == "tick").count();
            if at_teardown > 0 {
                teardown_resume = true;
                vensure!(
                    !case.probe_known,
                    "panicked-module-task-resumes-at-teardown",
                    "module {path} panicked at {} ns; its task resumed {} time(s) during tear-down",
                    a[pos].now,
                    at_teardown
                );
            }
            // (the remaining start-up stage of a module that panicked in its first stage is still invoked: not an event it "receives")
            let start0 = matches!(faults[i].as_ref().map(|f| &f.place), Some(Place::Start0) | Some(Place::Restart(false)));
            let later: Vec<&&Rec> = a[pos + 1..end_pos].iter().filter(|r| r.kind == "msg" || r.kind == "tick" || (r.kind == "start" && !start0)).collect();
            vensure!(
                later.is_empty(),
                "panicked-module-still-receives-events",
                "module {path} panicked at {} ns but afterwards still logged {}",
                a[pos].now,
                later.iter().map(|r| format!("{}@{}", r.kind, r.now)).collect::<Vec<_>>().join(" ")
            );
            if matches!(faults[i].as_ref().map(|f| &f.place), Some(Place::Handle(_)) | Some(Place::Start) | Some(Place::Start0) | Some(Place::Restart(_))) {
                vensure!(!real.active[i], "panicked-module-still-active", "module {path} panicked in a callback but is_active() is still true at the end");
            }
            continue;
        }
        if let Some(t) = first_fault_time {
            if a.iter().any(|r| r.now > t && r.kind == "msg") {
                alive_after_first += 1;
            }
        }
        for (k, (x, y)) in a.iter().zip(b.iter()).enumerate() {
            // the instant of tear-down is not an event the module receives
            let same = if x.kind == "end" && y.kind == "end" { x.path == y.path } else { x == y };
            vensure!(
                same,
                "bystander-disturbed",
                "module {path} (not faulty): log entry #{k} is {} with the panic, {} had the faulty module merely fallen silent\ncase {:?}",
                net::fmt_recs(std::slice::from_ref(*x)),
                net::fmt_recs(std::slice::from_ref(*y)),
                case
            );
        }
        vensure!(
            a.len() == b.len(),
            "bystander-disturbed",
            "module {path} (not faulty): {} log entries with the panic, {} with the silent twin\ncase {:?}",
            a.len(),
            b.len(),
            case
        );
    }
    if let Some(t) = first_fault_time {
        traffic_pending = twin.log.iter().any(|r| r.now > t && r.kind == "msg");
    }
    // 2. the error lists exactly the modules that panicked (unless caught)
    let want_panic: BTreeSet<String> = triggered_cb
        .iter()
        .filter(|m| !faults[**m].as_ref().unwrap().caught)
        .map(|m| format!("r{m}"))
        .collect();
    let got_panic: BTreeSet<String> = real.panic_paths.iter().cloned().collect();
    vensure!(
        got_panic == want_panic && real.panic_paths.len() == want_panic.len(),
        "panic-attribution",
        "run() reports panics of {:?}, the modules that panicked without a catching stereotype are {:?}",
        real.panic_paths,
        want_panic
    );
    let want_join: BTreeSet<String> = triggered_task.iter().map(|m| format!("r{m}")).collect();
    let got_join: BTreeSet<String> = real.join_paths.iter().map(|j| j.0.clone()).collect();
    vensure!(
        got_join == want_join && real.join_paths.iter().all(|j| j.1.starts_with("Paniced")),
        "panic-attribution",
        "run() reports task failures {:?}, the modules whose joined task panicked are {:?}",
        real.join_paths,
        want_join
    );
    vensure!(real.other_errors.is_empty(), "panic-attribution", "unexpected errors {:?}", real.other_errors);
    // 3. simulator-global state is usable afterwards
    check_followup("a simulation with panicking modules")?;

    let mut labels = Vec::new();
    if !triggered_cb.is_empty() {
        labels.push("callback-panic");
    }
    if !triggered_task.is_empty() {
        labels.push("task-panic");
    }
    if triggered_cb.len() + triggered_task.len() >= 2 {
        labels.push(">=2-panicking-modules");
    }
    if faults.iter().flatten().any(|f| f.caught) && !triggered_cb.is_empty() {
        labels.push("catching-stereotype");
    }
    if real.log.iter().any(|r| r.kind == "shutdown") && triggered_cb.iter().any(|m| matches!(faults[*m].as_ref().map(|f| &f.place), Some(Place::End))) {
        labels.push("shut-down-module-panics-in-at_sim_end");
    }
    if real.log.iter().any(|r| r.kind == "shutdown" && r.a == 1) && !triggered_task.is_empty() {
        labels.push("module-shut-down-after-its-joined-task-panicked");
    }
    if triggered_cb.iter().any(|m| matches!(faults[*m].as_ref().map(|f| &f.place), Some(Place::Restart(_)))) {
        labels.push("restarted-module-panics-in-its-start-up");
    }
    if case.faults.iter().any(|f| f.flip && !matches!(f.place, Place::Task(_))) {
        labels.push("stereotype-switched-in-the-panicking-callback");
    }
    if alive_after_first >= 2 {
        labels.push(">=2-modules-alive-after-first-panic");
    }
    if traffic_pending {
        labels.push("traffic-pending-at-panic");
    }
    let nt = (!triggered_cb.is_empty() || !triggered_task.is_empty()) && alive_after_first >= 2 && traffic_pending;
    if teardown_resume {
        labels.push("known-finding-shape:task-resumes-at-teardown");
    }
    Ok((nt, labels, teardown_resume))
}

impl Prop for C13 {
    const LEVEL: &'static str = "fault_enumeration";
    const ID: &'static str = "C13";
    type Case = Case;

    fn rule() -> String {
        "generated fault placements in a ring of 2..6 modules (ping traffic with ttl started by self timers, latency channels, a joined ticker task \
         per module): 1..3 faults, each = module x {k-th handle_message call (before or after the handler's forwarding), last or first at_sim_start stage, \
         at_sim_end, the first or last start-up stage of the module's second incarnation (it shuts down after its first message and restarts 2.5 ms later), j-th tick of the joined task} x stereotype {HOST, SUBPROCESS} (optionally switched to that value inside the panicking callback itself), for at_sim_end optionally after the module shut itself down. Oracle: differential against the silent twin (the same model \
         where the module returns at the placement and ignores every later callback): the complete logs of all modules without a callback fault \
         are equal in both runs; a callback-panicked module logs no message / wake-up afterwards and is inactive; run() does not unwind; its \
         error lists exactly the non-caught panicking modules (PanicError) and the modules whose joined task panicked (JoinError::Paniced), or is \
         Ok; a canonical follow-up simulation in the same process reproduces the trace of a fresh process. Non-trivial iff a fault triggered AND \
         >= 2 other modules handle messages after the first panic AND traffic was pending at the panic."
            .into()
    }
    fn assumptions() -> Vec<String> {
        vec![
            "deactivation is not asserted after a task panic (tokio contains it in the task; des reports it at join time)".into(),
            "at_sim_end being called on a deactivated module is not counted as an event the module 'receives'".into(),
            "tasks are registered with try_join so that an unfinished task of a deactivated module is not an additional error".into(),
        ]
    }
    fn plan(tier: Tier) -> Plan {
        Plan {
            shards: tier.pick(4, 16),
            cases_per_shard: tier.pick(2_000, 30_000),
            watchdog: StdDuration::from_secs(tier.pick(300, 3600)),
        }
    }
    fn strategy(_tier: Tier) -> BoxedStrategy<Case> {
        let place = prop_oneof![
            5 => (1u8..8).prop_map(Place::Handle),
            1 => Just(Place::Start),
            1 => Just(Place::Start0),
            1 => Just(Place::End),
            2 => any::<bool>().prop_map(Place::Restart),
            2 => (1u8..6).prop_map(Place::Task),
        ];
        let fault = (0u8..6, place, any::<bool>(), any::<bool>(), proptest::bool::weighted(0.25), any::<bool>(), any::<bool>()).prop_map(|(module, place, caught, after_work, flip, shutdown_first, shutdown_late)| Fault {
            module,
            place,
            caught,
            after_work,
            flip,
            shutdown_first,
            shutdown_late,
        });
        (
            2u8..=6,
            proptest::collection::vec((0u8..6, 0u16..30, 0u8..12), 1..10),
            proptest::collection::vec(0u8..6, 6),
            proptest::collection::vec(fault, 1..=3),
        )
            .prop_map(|(n, timers, ticks, faults)| Case {
                probe_known: false,
                n,
                timers,
                ticks,
                faults,
            })
            .boxed()
    }
    fn run(case: &Case) -> Outcome {
        match run_case(case) {
            Ok((nt, labels, excluded)) => {
                let mut o = Outcome::ok(nt, labels);
                o.excluded = excluded;
                o
            }
            Err(f) => Outcome::failed(f),
        }
    }
    fn builtin_cases() -> Vec<(String, Case)> {
        vec![(
            "known-task-of-panicked-module-resumes-at-teardown".into(),
            Case {
                probe_known: true,
                n: 2,
                timers: vec![(0, 0, 0)],
                ticks: vec![1, 0],
                faults: vec![Fault { module: 0, place: Place::Handle(1), caught: false, after_work: false, flip: false, shutdown_first: false, shutdown_late: false }],
            },
        )]
    }
}
