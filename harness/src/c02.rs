//! C02 – the simulation clock is monotone and equals the timestamp of the running event.

use crate::engine::*;
use crate::prog::{self, ExecOpts, Program};
use crate::{vensure, vfail};
use proptest::prelude::*;
use serde::{Deserialize, Serialize};
use std::time::Duration;

pub struct C02;

/// A program, optionally driven in steps (with events added while paused) instead of one `run()`.
#[derive(Clone, Debug, Serialize, Deserialize)]
pub struct Case {
    #[serde(flatten)]
    pub program: Program,
    #[serde(default)]
    pub steps: Vec<crate::c10::StepSpec>,
    /// built-in probe: while an event is being handled another thread calls `Builder::build` (which has to wait
    /// for the simulation lock); the running simulation's clock must not be touched
    #[serde(default)]
    pub concurrent_build: bool,
}

struct ProbeApp {
    seen: Vec<(u128, u128, u128)>,
    waiter: Option<std::thread::JoinHandle<()>>,
}
struct Noop;
impl des::prelude::Application for Noop {
    type EventSet = ();
    type Lifecycle = ();
}
#[derive(Debug)]
struct ProbeEv(u128);
impl des::prelude::Application for ProbeApp {
    type EventSet = ProbeEv;
    type Lifecycle = ();
}
impl des::prelude::Event<ProbeApp> for ProbeEv {
    fn handle(self, rt: &mut des::prelude::Runtime<ProbeApp>) {
        use des::prelude::*;
        let before = SimTime::now().as_nanos();
        if rt.app.waiter.is_none() {
            rt.app.waiter = Some(std::thread::spawn(|| {
                // blocks until the running simulation is gone
                let other = Builder::seeded(5).quiet().start_time(SimTime::ZERO).build(Noop);
                drop(other);
            }));
            // give the other thread the opportunity to run into the lock (the oracle does not depend on it)
            std::thread::sleep(std::time::Duration::from_millis(40));
        }
        let after = SimTime::now().as_nanos();
        rt.app.seen.push((self.0, before, after));
    }
}

fn concurrent_build_probe() -> Result<(), Failure> {
    use des::prelude::*;
    let mut rt = Builder::seeded(1).quiet().start_time(SimTime::from_duration(Duration::from_secs(1))).build(ProbeApp {
        seen: Vec::new(),
        waiter: None,
    });
    for t in [2_000_000_000u128, 2_000_000_001, 5_000_000_000] {
        rt.add_event(ProbeEv(t), SimTime::from_duration(Duration::from_nanos(t as u64)));
    }
    let res = rt.run();
    let Ok((mut app, end, _)) = res else { vfail!("run-returned-error", "run() returned an error") };
    if let Some(h) = app.waiter.take() {
        let _ = h.join();
    }
    for (t, before, after) in &app.seen {
        vensure!(
            before == t && after == t,
            "clock-changed-by-concurrent-build",
            "while the event scheduled for {t} ns was handled, another thread called Builder::build: SimTime::now() was {before} ns at entry and {after} ns afterwards"
        );
    }
    vensure!(end.as_nanos() == 5_000_000_000 && app.seen.len() == 3, "end-time-mismatch", "run ended at {} ns after {} events", end.as_nanos(), app.seen.len());
    Ok(())
}

pub fn check(case: &Case) -> Result<(bool, Vec<&'static str>), Failure> {
    if case.concurrent_build {
        concurrent_build_probe()?;
        return Ok((true, vec!["concurrent-build-attempt"]));
    }
    let p = &case.program;
    let res = prog::resolve(p);
    let steps: Option<Vec<prog::Step>> = if case.steps.is_empty() {
        None
    } else {
        Some(crate::c10::resolve_steps(&crate::c10::Case {
            program: p.clone(),
            steps: case.steps.clone(),
        }))
    };
    let m = prog::model(p, 0, &[], steps.as_deref());
    let r = prog::execute(
        p,
        &ExecOpts {
            steps: steps.clone(),
            ..Default::default()
        },
    )?;
    for (k, rep) in r.steps.iter().enumerate() {
        if let Some((t, msg)) = &rep.add_rejected {
            vfail!(
                "valid-add-rejected",
                "step #{k}: while paused at {} ns an event for {t} ns (not before the current time) was rejected: {msg}",
                rep.sim_time
            );
        }
    }
    // timestamps the externally added events were scheduled with (from the model of the schedule)
    let ext_time: std::collections::BTreeMap<u32, u128> = m.trace.iter().filter(|(id, _)| *id >= prog::EXTERNAL_BASE).copied().collect();
    for (whr, target, accepted) in &r.past_attempts {
        vensure!(
            !*accepted,
            if whr == "before the run" { "past-event-accepted-before-run" } else { "past-event-accepted-in-handler" },
            "add_event at {target} ns ({whr}) lies before the current simulated time but was accepted"
        );
    }
    if let Some((id, time, msg)) = r.rejected_adds.first() {
        vfail!(
            "valid-add-rejected",
            "scheduling node {id} at {time} ns (not before the current time) panicked: {msg}"
        );
    }
    let mut seen = vec![false; p.nodes.len()];
    let mut seen_ext = std::collections::BTreeSet::new();
    let mut last = p.start_ns as u128;
    for (k, (id, now)) in r.trace.iter().enumerate() {
        if let Some(t) = ext_time.get(id) {
            vensure!(
                now == t,
                "handler-sees-wrong-time",
                "dispatch #{k}: handler of externally added event {id} sees SimTime::now() = {now} ns, it was scheduled for {t} ns"
            );
            vensure!(*now >= last, "clock-went-backwards", "dispatch #{k}: clock went from {last} ns to {now} ns");
            vensure!(seen_ext.insert(*id), "event-dispatched-twice", "external event {id} dispatched twice");
            last = *now;
            continue;
        }
        vensure!((*id as usize) < p.nodes.len(), "unknown-event-dispatched", "dispatch #{k} is unknown event {id}");
        vensure!(
            *now == res.time[*id as usize],
            "handler-sees-wrong-time",
            "dispatch #{k}: handler of node {id} sees SimTime::now() = {now} ns, it was scheduled for {} ns",
            res.time[*id as usize]
        );
        vensure!(*now >= last, "clock-went-backwards", "dispatch #{k}: clock went from {last} ns to {now} ns");
        vensure!(!seen[*id as usize], "event-dispatched-twice", "node {id} dispatched twice");
        seen[*id as usize] = true;
        last = *now;
    }
    if let Some(i) = seen.iter().position(|s| !s) {
        vfail!("event-lost", "node {i} (scheduled for {} ns) was never dispatched", res.time[i]);
    }
    vensure!(seen_ext.len() == ext_time.len(), "event-lost", "{} of {} externally added events were dispatched", seen_ext.len(), ext_time.len());
    vensure!(
        r.end_time == last,
        "end-time-mismatch",
        "run() returned {} ns, the last handled event had {} ns",
        r.end_time,
        last
    );
    vensure!(
        r.event_count == r.trace.len(),
        "event-count-mismatch",
        "event_count {} but {} handler calls",
        r.event_count,
        r.trace.len()
    );
    vensure!(r.remaining.is_empty(), "remaining-after-complete-run", "{} events remain", r.remaining.len());
    let mut labels = Vec::new();
    if p.start_ns != 0 {
        labels.push("non-zero-start");
    }
    if m.zero_delay_children > 0 {
        labels.push("zero-delay-child");
    }
    if !r.past_attempts.is_empty() {
        labels.push("past-attempt");
    }
    if r.past_attempts.iter().any(|(w, _, _)| w == "before the run") {
        labels.push("past-attempt-before-run");
    }
    if p.nodes.len() >= 30 {
        labels.push("nodes>=30");
    }
    if last >= 1u128 << 64 {
        labels.push("clock-beyond-2^64ns");
    }
    if steps.is_some() {
        labels.push("driven-in-steps");
    }
    if !ext_time.is_empty() {
        labels.push("events-added-while-paused");
    }
    let nontrivial = p.start_ns != 0 && m.zero_delay_children > 0 && !r.past_attempts.is_empty();
    Ok((nontrivial, labels))
}

impl Prop for C02 {
    const ID: &'static str = "C02";
    type Case = Case;

    fn rule() -> String {
        "proptest event programs on a raw Runtime: start time from {0,1ns,2.5ms,1s,10s,12345.678s}, calendar parameters (n,t) (in one case of eleven 8 buckets of 2^62 ns, so that a few bucket widths carry the clock beyond 2^64 ns), a forest of events \
         (roots scheduled before run at start+delta, children scheduled by their parent's handler via add_event(now+delta) / add_event_in(delta), delta \
         from {0, ns, width-1, width, width+1, k widths, year, year+k, tie with an earlier event}), plus attempts to schedule before the current time \
         (before the run and inside handlers) under catch_unwind. Oracle: every handler sees now()==model timestamp, non-decreasing, each event once, \
         all past attempts panic, no valid add rejected, run() returns last timestamp and count; a quarter of the cases drive the runtime in steps \
         (dispatch_n_events / dispatch_events_until with events added while paused, C10's schedule generator) under the same oracle. Non-trivial iff start != 0 AND a zero-delay child \
         exists AND at least one past attempt was made."
            .into()
    }
    fn assumptions() -> Vec<String> {
        vec!["per-hop delay capped at 2*10^5 bucket widths (scan cost)".into(), "cqueue backend (default features)".into()]
    }
    fn plan(tier: Tier) -> Plan {
        Plan {
            shards: tier.pick(4, 16),
            cases_per_shard: tier.pick(3_000, 20_000),
            watchdog: Duration::from_secs(tier.pick(300, 3600)),
        }
    }
    fn strategy(tier: Tier) -> BoxedStrategy<Case> {
        let plain = prog::program_strategy(tier.pick(40, 150), false, true).prop_map(|program| Case { program, steps: Vec::new(), concurrent_build: false });
        // the same oracle on runs that are driven in steps with events added while paused (C10's schedule generator)
        let stepped = crate::c10::C10::strategy(tier).prop_map(|c| Case {
            program: c.program,
            steps: c.steps,
            concurrent_build: false,
        });
        // buckets 2^62 ns (146 years) wide: a few bucket widths carry the clock across 2^64 ns (584 years), where a
        // nanosecond count no longer fits 64 bit
        let huge = prog::program_strategy(tier.pick(25, 60), false, true).prop_map(|mut program| {
            program.params = crate::cq::QParams { n: 8, t_ns: 1 << 62 };
            Case { program, steps: Vec::new(), concurrent_build: false }
        });
        prop_oneof![5 => plain, 5 => stepped, 1 => huge].boxed()
    }
    fn run(case: &Case) -> Outcome {
        match check(case) {
            Ok((nt, labels)) => Outcome::ok(nt, labels),
            Err(f) => Outcome::failed(f),
        }
    }
    #[cfg(not(vcheck_heap_backend))]
    fn extra(tier: Tier, seed: u64, ev: &mut ExtraEvidence) -> Vec<Violation> {
        if tier != Tier::Thorough {
            return Vec::new();
        }
        let mut v = heap_backend_extra("C02", seed, ev);
        v.extend(fuzz_extra("C02", seed, ev));
        v
    }
    fn builtin_cases() -> Vec<(String, Case)> {
        vec![(
            "build-from-another-thread-while-running".into(),
            Case {
                program: Program {
                    params: crate::cq::QParams { n: 1028, t_ns: 2_500_000 },
                    start_ns: 0,
                    nodes: vec![],
                    pre_past: None,
                },
                steps: vec![],
                concurrent_build: true,
            },
        )]
    }
}
