//! C01 – future event set: time-ordered, exactly-once, cancellable dispatch.

use crate::cq::{self, Op, QParams};
use crate::engine::*;
use proptest::prelude::*;
use serde::{Deserialize, Serialize};
use std::time::Duration;

#[derive(Clone, Debug, Serialize, Deserialize)]
pub struct Case {
    pub params: QParams,
    pub ops: Vec<Op>,
}

pub struct C01;

pub fn run_case(case: &Case) -> Outcome {
    let opt = cq::Options {
        tie_order: false,
        structure: true,
        memory: false,
        page_size: None,
        drop_at: None,
    };
    match cq::interpret::<u64>(&case.params, &case.ops, &opt) {
        Err(f) => Outcome::failed(f),
        Ok(fl) => {
            let mut labels = Vec::new();
            if fl.cancel_after_fetch {
                labels.push("cancel-pending-after-fetch");
            }
            if fl.cancel_at_current_indexed {
                labels.push("cancel-at-current-time-of-earlier-insert");
            }
            if fl.zero_add_after_fetch {
                labels.push("add-at-current-time");
            }
            if fl.year_cross {
                labels.push("fetch-crosses-whole-year");
            }
            if fl.outlier {
                labels.push("far-future-outlier");
            }
            if fl.huge {
                labels.push("timestamp>=2^64ns");
            }
            if fl.zero_burst {
                labels.push("burst-of->=65-events-at-the-current-time");
            }
            if fl.cancel_fetched {
                labels.push("cancel-of-fetched-handle");
            }
            if fl.max_len >= 16 {
                labels.push("len>=16");
            }
            let nontrivial = fl.cancel_after_fetch || fl.tie_current || fl.year_cross;
            Outcome::ok(nontrivial, labels)
        }
    }
}

impl Prop for C01 {
    const ID: &'static str = "C01";
    type Case = Case;

    fn rule() -> String {
        "proptest histories over (bucket count n, bucket width t, vec(Add(kind)|Cancel|CancelAtCurrent|Fetch|CancelFetched)) with add times built \
         relative to the model's current time (ties, bucket edges +-1ns, whole-year multiples, outliers, timestamps beyond 2^64 ns, bursts of 65..104 adds at the current time), refused fetch_next_if calls, always ended by a full drain; oracle = \
         independent pending-multiset model (len, min-time, exactly-once, timestamp, cancelled-never-returned) + structural invariants of the hook \
         snapshot after ops. A case is non-trivial iff it cancels a pending event after at least one fetch, or adds/cancels an event whose time \
         equals the current (last fetched, non-initial) time, or a fetch crosses a whole calendar year; distinct = distinct serialised case."
            .into()
    }
    fn assumptions() -> Vec<String> {
        vec![
            "add times >= last fetched time (documented precondition), cancel only with handles returned by add".into(),
            "events that are fetched lie <= 2*10^5 bucket widths ahead (scan cost, not semantics); events beyond 2^64 ns are added and cancelled, never fetched".into(),
            "order among equal timestamps is not asserted here (C03)".into(),
        ]
    }
    fn plan(tier: Tier) -> Plan {
        Plan {
            shards: tier.pick(4, 16),
            cases_per_shard: tier.pick(5_000, 40_000),
            watchdog: Duration::from_secs(tier.pick(300, 3600)),
        }
    }
    fn strategy(tier: Tier) -> BoxedStrategy<Case> {
        let max = tier.pick(60, 400);
        (cq::params_strategy(), proptest::collection::vec(cq::op_strategy(), 0..max))
            .prop_map(|(params, ops)| Case { params, ops })
            .boxed()
    }
    fn run(case: &Case) -> Outcome {
        run_case(case)
    }
    fn signal_is_violation() -> bool {
        true
    }
    fn extra(tier: Tier, seed: u64, ev: &mut ExtraEvidence) -> Vec<Violation> {
        if tier != Tier::Thorough {
            return Vec::new();
        }
        crate::fuzz::run(
            &crate::fuzz::Campaign {
                property: "C01",
                target: "cq_history",
                asan: false,
                runs: 2_000_000,
                max_len: 300,
                seed,
                seeds: crate::fuzz::random_seeds(seed, 24, 300),
                max_time: 600,
            },
            ev,
        )
    }
}
