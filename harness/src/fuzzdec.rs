//! Byte decoders that turn libFuzzer inputs into the same case types the proptest checks use,
//! and thin runners that apply the same interpreters + oracles (engine 2 of DESIGN.md).

use crate::cq::{self, AddKind, Op, QParams};
use crate::engine::{verif_root, Failure};
use crate::{c01, c15, c17, c18};
use serde::Serialize;
use std::hash::{Hash, Hasher};

/// libfuzzer-sys installs a panic hook that aborts the process on *any* panic, including the ones the
/// interpreters catch on purpose (documented rejections, panics inside third-party crates). Replace it once;
/// real violations are reported by `fail`, which aborts explicitly.
pub fn init() {
    static ONCE: std::sync::Once = std::sync::Once::new();
    ONCE.call_once(crate::engine::install_quiet_panic_hook);
}

pub fn fail(id: &str, f: &Failure) -> ! {
    eprintln!("{id} violated: {}: {}", f.sig, f.msg);
    std::process::abort()
}

struct Cur<'a> {
    d: &'a [u8],
    i: usize,
}
impl Cur<'_> {
    fn u8(&mut self) -> u8 {
        let v = self.d.get(self.i).copied().unwrap_or(0);
        self.i += 1;
        v
    }
    fn u16(&mut self) -> u16 {
        u16::from_le_bytes([self.u8(), self.u8()])
    }
    fn done(&self) -> bool {
        self.i >= self.d.len()
    }
}

fn ops(c: &mut Cur, max: usize) -> Vec<Op> {
    let mut out = Vec::new();
    while !c.done() && out.len() < max {
        let b = c.u8();
        out.push(match b % 18 {
            0..=7 => Op::Add(match c.u8() % 10 {
                9 => AddKind::ZeroBurst(c.u8() % 40),
                8 => AddKind::Huge(c.u8() % 8),
                0 => AddKind::Zero,
                1 => AddKind::TieWithPending(c.u16()),
                2 => AddKind::SameBucket(c.u16()),
                3 => {
                    let x = c.u8();
                    AddKind::BucketEdge(x % 4, (x / 4 % 3) as i8 - 1)
                }
                4 => {
                    let x = c.u8();
                    AddKind::YearMultiple(x % 3, x / 3 % 3)
                }
                5 => AddKind::Outlier(c.u16() as u32 % 3000),
                6 => AddKind::Small(c.u16() as u32 % 5000),
                _ => {
                    let x = c.u8();
                    AddKind::Widths((x % 40) as u16, (x / 40 % 4) as u16)
                }
            }),
            8 | 9 => Op::Cancel(c.u16()),
            10 | 11 => Op::CancelAtCurrent(c.u16()),
            12..=14 => Op::Fetch,
            15 => Op::CancelFetched(c.u16()),
            _ => Op::FetchRefused,
        });
    }
    out
}

fn params(c: &mut Cur) -> QParams {
    let b = c.u8();
    // the 1028-bucket configuration is left to the proptest engine (snapshots of 2056 sentinels per op are slow here)
    QParams {
        n: cq::NS[b as usize % (cq::NS.len() - 1)],
        t_ns: cq::TS[(b as usize / cq::NS.len()) % cq::TS.len()],
    }
}

pub fn c01_case(data: &[u8]) -> c01::Case {
    let mut c = Cur { d: data, i: 0 };
    let params = params(&mut c);
    c01::Case {
        params,
        ops: ops(&mut c, 400),
    }
}

pub fn run_c01(case: &c01::Case) -> Option<Failure> {
    // C01's oracle plus the tie order of C03 at queue level
    let opt = cq::Options {
        tie_order: true,
        structure: true,
        memory: false,
        page_size: None,
        drop_at: None,
    };
    cq::interpret::<u64>(&case.params, &case.ops, &opt).err()
}

pub fn c15_case(data: &[u8]) -> c15::Case {
    let mut c = Cur { d: data, i: 0 };
    let b = c.u8();
    let params = QParams {
        n: [1, 2, 3, 5, 8, 32][b as usize % 6],
        t_ns: cq::TS[(b as usize / 6) % cq::TS.len()],
    };
    let payload = c.u8() % c15::PAYLOADS.len() as u8;
    let page = c.u8() % c15::PAGES.len() as u8;
    let d = c.u16();
    let ops = ops(&mut c, 800);
    let drop_at = if d % 3 == 0 { None } else { Some(((d as usize * (ops.len() + 1)) >> 16) as u16) };
    c15::Case {
        params,
        payload,
        page,
        ops,
        drop_at,
    }
}

pub fn run_c15(case: &c15::Case) -> Option<Failure> {
    c15::run_case(case).fail
}

pub fn c17_case(data: &[u8]) -> c17::Case {
    let mut c = Cur { d: data, i: 0 };
    let nm = 1 + c.u8() as usize % 4;
    let modules: Vec<Vec<u8>> = (0..nm)
        .map(|_| {
            let d = 1 + c.u8() as usize % 4;
            (0..d).map(|_| c.u8() % c17::NAMES.len() as u8).collect()
        })
        .collect();
    let mut entries = Vec::new();
    while !c.done() && entries.len() < 16 {
        let len = 1 + c.u8() as usize % 4;
        let base = &modules[c.u8() as usize % nm];
        let comps = (0..len)
            .map(|i| {
                let x = c.u8();
                match x % 8 {
                    0 | 1 => c17::Comp::Any,
                    2 => c17::Comp::Name(x / 8 % c17::NAMES.len() as u8),
                    _ => c17::Comp::Name(base.get(i).copied().unwrap_or(x / 8 % c17::NAMES.len() as u8)),
                }
            })
            .collect();
        let prop = c.u8() % c17::PROPS.len() as u8;
        let v = c.u8();
        let val = match v % 3 {
            0 => c17::Val::Int(v as i64 - 5),
            1 => c17::Val::Bool(v & 4 == 0),
            _ => c17::Val::Str(v / 3),
        };
        entries.push(c17::Entry { comps, prop, val });
    }
    c17::Case {
        modules,
        entries,
        typed: Vec::new(),
        keep_shadowing: false,
    }
}

pub fn run_c17(case: &c17::Case) -> Option<Failure> {
    c17::run_case(case).err()
}

pub fn run_c18_text(text: &str) -> Option<Failure> {
    c18::elaborate(text).err()
}

fn hash_of(s: &str) -> u64 {
    let mut h = std::collections::hash_map::DefaultHasher::new();
    s.hash(&mut h);
    h.finish()
}

/// Writes the decoded case as a JSON replay file that `./check <ID> quick --replay` accepts.
pub fn report<C: Serialize>(id: &str, case: &C, f: &Failure) {
    let text = serde_json::to_string_pretty(case).unwrap();
    let dir = verif_root().join("replays").join(id);
    let _ = std::fs::create_dir_all(&dir);
    let path = dir.join(format!("fuzz-{:016x}.json", hash_of(&text)));
    let _ = std::fs::write(&path, text);
    eprintln!("FUZZ-VIOLATION property={id} replay={} signature={}", path.display(), f.sig);
}

pub fn report_text(id: &str, text: &str, f: &Failure) {
    let dir = verif_root().join("replays").join(id);
    let _ = std::fs::create_dir_all(&dir);
    let path = dir.join(format!("fuzz-{:016x}.yml", hash_of(text)));
    let _ = std::fs::write(&path, text);
    eprintln!("FUZZ-VIOLATION property={id} replay={} signature={}", path.display(), f.sig);
}

// ------------------------------------------------------------------------------------------
// generic target: the fuzzer's bytes are the random stream of the property's own proptest strategy

fn go<P: crate::engine::Prop>(data: &[u8]) {
    use proptest::strategy::{Strategy, ValueTree};
    use proptest::test_runner::{Config, RngAlgorithm, TestRng, TestRunner};
    thread_local! {
        static KNOWN: std::cell::RefCell<Option<Vec<String>>> = const { std::cell::RefCell::new(None) };
    }
    // proptest's pass-through RNG hands out the input bytes in order and zeros after the end; an all-zero stream makes
    // rand's rejection sampling spin forever, so the input is continued by a fixed pseudo-random tail (256 KiB, more
    // than any case draws)
    static TAIL: std::sync::OnceLock<Vec<u8>> = std::sync::OnceLock::new();
    let tail = TAIL.get_or_init(|| crate::fuzz::random_seeds(0x7461_696c, 1, 1 << 18).pop().unwrap_or_default());
    let mut stream = Vec::with_capacity(data.len() + tail.len());
    stream.extend_from_slice(data);
    stream.extend_from_slice(tail);
    if std::env::var_os("VERIF_FUZZ_DEBUG").is_some() {
        eprintln!("prop_bytes: data {} bytes, tail {} bytes, stream {} bytes, first {:?}", data.len(), tail.len(), stream.len(), &stream[..8.min(stream.len())]);
    }
    let rng = TestRng::from_seed(RngAlgorithm::PassThrough, &stream);
    let cfg = Config {
        failure_persistence: None,
        ..Config::default()
    };
    let mut runner = TestRunner::new_with_rng(cfg, rng);
    let Ok(tree) = P::strategy(crate::engine::Tier::Quick).new_tree(&mut runner) else {
        return;
    };
    let case = tree.current();
    if std::env::var_os("VERIF_FUZZ_DEBUG").is_some() {
        eprintln!("prop_bytes: case generated");
    }
    let out = crate::engine::run_one::<P>(&case);
    if std::env::var_os("VERIF_FUZZ_DEBUG").is_some() {
        eprintln!("prop_bytes: case ran, failed={}", out.fail.is_some());
    }
    if let Some(f) = out.fail {
        let known = KNOWN.with(|k| {
            k.borrow_mut()
                .get_or_insert_with(|| crate::engine::known_findings(P::ID).into_iter().filter(|k| k.status == "known").map(|k| k.signature).collect())
                .contains(&f.sig)
        });
        if known {
            return;
        }
        report(P::ID, &case, &f);
        fail(P::ID, &f);
    }
}

/// Entry of the `prop_bytes` target; the property is chosen by the environment variable VERIF_FUZZ_PROP.
pub fn run_prop_bytes(data: &[u8]) {
    static ID: std::sync::OnceLock<String> = std::sync::OnceLock::new();
    let id = ID.get_or_init(|| std::env::var("VERIF_FUZZ_PROP").unwrap_or_default());
    match id.as_str() {
        "C01" => go::<c01::C01>(data),
        "C02" => go::<crate::c02::C02>(data),
        "C03" => go::<crate::c03::C03>(data),
        "C04" => go::<crate::c04::C04>(data),
        "C05" => go::<crate::c05::C05>(data),
        "C06" => go::<crate::c06::C06>(data),
        "C07" => go::<crate::c07::C07>(data),
        "C08" => go::<crate::c08::C08>(data),
        "C09" => go::<crate::c09::C09>(data),
        "C10" => go::<crate::c10::C10>(data),
        "C11" => go::<crate::c11::C11>(data),
        "C12" => go::<crate::c12::C12>(data),
        "C13" => go::<crate::c13::C13>(data),
        "C14" => go::<crate::c14::C14>(data),
        "C15" => go::<c15::C15>(data),
        "C16" => go::<crate::c16::C16>(data),
        "C17" => go::<c17::C17>(data),
        "C18" => go::<c18::C18>(data),
        "C19" => go::<crate::c19::C19>(data),
        "C20" => go::<crate::c20::C20>(data),
        other => {
            eprintln!("prop_bytes: VERIF_FUZZ_PROP='{other}' names no property");
            std::process::abort()
        }
    }
}
