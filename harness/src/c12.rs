//! C12 – start-up and tear-down callbacks run once, stage by stage, in module-tree order.

use crate::engine::*;
use crate::net::{self, Rec};
use crate::{vensure, vfail};
use des::prelude::*;
use proptest::prelude::*;
use serde::{Deserialize, Serialize};
use std::collections::BTreeMap;
use std::time::Duration as StdDuration;

pub const NAMES: [&str; 8] = ["a", "ab", "a1", "a[0]", "a[1]", "b", "ba", "ä"];

#[derive(Clone, Debug, Serialize, Deserialize)]
pub struct NodeSpec {
    /// None = top level; Some(i) = child of node idx(i) among the earlier nodes
    pub parent: Option<u16>,
    pub name: u8,
    pub stages: u8,
    /// insertion priority: among the nodes whose parent exists the smallest goes first
    pub prio: u16,
    /// the module shuts itself down (without restart) when it handles its delayed message
    #[serde(default)]
    pub shuts_down: bool,
    /// the module panics (non-catching stereotype) when it handles its delayed message: run() reports it, every other
    /// module is still torn down exactly once
    #[serde(default)]
    pub panics: bool,
    /// the module's number of start-up stages is changed to this value (mod 4) after the node was created, before
    /// the simulation is built: what a module declares when the simulation starts is what counts
    #[serde(default)]
    pub late_stages: Option<u8>,
}

#[derive(Clone, Debug, Serialize, Deserialize)]
pub enum Bad {
    /// insert an existing path again
    Duplicate(u16),
    /// insert a node below a path that does not exist
    Orphan(u16),
}

#[derive(Clone, Debug, Serialize, Deserialize)]
pub struct Case {
    pub nodes: Vec<NodeSpec>,
    pub bad: Vec<(u16, Bad)>,
}

pub struct C12;

struct M {
    stages: usize,
    shuts_down: bool,
    panics: bool,
}
impl Module for M {
    fn num_sim_start_stages(&self) -> usize {
        self.stages
    }
    fn at_sim_start(&mut self, stage: usize) {
        net::log("start", stage as i64, 0);
        if stage == 0 {
            schedule_in(Message::default().id(1), Duration::from_millis(5));
            schedule_in(Message::default().id(2), Duration::ZERO);
        }
    }
    fn handle_message(&mut self, msg: Message) {
        net::log("handle", msg.header().id as i64, 0);
        if self.panics && msg.header().id == 1 {
            panic!("injected fault");
        }
        if self.shuts_down && msg.header().id == 1 {
            current().shutdown();
        }
    }
    fn at_sim_end(&mut self) -> Result<(), RuntimeError> {
        net::log("end", 0, 0);
        Ok(())
    }
}

struct Tree {
    /// stage count the node is created with (differs from `stages` for late-configured modules)
    created_stages: Vec<usize>,
    panics: Vec<bool>,
    shuts_down: Vec<bool>,
    path: Vec<String>,
    parent: Vec<Option<usize>>,
    stages: Vec<usize>,
    /// insertion order (indices into the node list)
    order: Vec<usize>,
}

fn build_tree(case: &Case) -> Tree {
    let mut path: Vec<String> = Vec::new();
    let mut parent: Vec<Option<usize>> = Vec::new();
    let mut depth: Vec<usize> = Vec::new();
    let mut stages = Vec::new();
    let mut shuts = Vec::new();
    let mut created = Vec::new();
    let mut panics = Vec::new();
    let mut prio = Vec::new();
    for (i, n) in case.nodes.iter().enumerate() {
        let par = match n.parent {
            Some(p) if i > 0 => Some(idx(p, path.len())).filter(|p| depth[*p] < 4),
            _ => None,
        };
        let base = NAMES[n.name as usize % NAMES.len()];
        let mk = |name: &str| match par {
            Some(p) => format!("{}.{}", path[p], name),
            None => name.to_string(),
        };
        // sibling names must be unique: disambiguate deterministically
        let mut name = base.to_string();
        let mut k = 0;
        while path.contains(&mk(&name)) {
            k += 1;
            name = format!("{base}{k}");
        }
        path.push(mk(&name));
        parent.push(par);
        depth.push(par.map_or(1, |p| depth[p] + 1));
        created.push((n.stages % 4) as usize);
        stages.push((n.late_stages.unwrap_or(n.stages) % 4) as usize);
        shuts.push(n.shuts_down);
        panics.push(n.panics);
        prio.push(n.prio);
    }
    // a valid insertion order: parents first, otherwise by priority
    let n = path.len();
    let mut inserted = vec![false; n];
    let mut order = Vec::new();
    while order.len() < n {
        let next = (0..n)
            .filter(|i| !inserted[*i] && parent[*i].map_or(true, |p| inserted[p]))
            .min_by_key(|i| (prio[*i], *i))
            .unwrap();
        inserted[next] = true;
        order.push(next);
    }
    Tree { created_stages: created, panics, shuts_down: shuts, path, parent, stages, order }
}

/// DFS pre-order with siblings in creation (= insertion) order.
fn preorder(t: &Tree) -> Vec<usize> {
    let pos: BTreeMap<usize, usize> = t.order.iter().enumerate().map(|(k, i)| (*i, k)).collect();
    let mut children: BTreeMap<Option<usize>, Vec<usize>> = BTreeMap::new();
    for &i in &t.order {
        children.entry(t.parent[i]).or_default().push(i);
    }
    for v in children.values_mut() {
        v.sort_by_key(|i| pos[i]);
    }
    let mut out = Vec::new();
    fn visit(n: usize, children: &BTreeMap<Option<usize>, Vec<usize>>, out: &mut Vec<usize>) {
        out.push(n);
        if let Some(c) = children.get(&Some(n)) {
            for &x in c {
                visit(x, children, out);
            }
        }
    }
    if let Some(tops) = children.get(&None) {
        for &x in tops {
            visit(x, &children, &mut out);
        }
    }
    out
}

pub fn run_case(case: &Case) -> Result<(bool, Vec<&'static str>), Failure> {
    let t = build_tree(case);
    let n = t.path.len();
    net::log_clear();
    let mut sim = Sim::new(());
    let mut bad_done = 0;
    let mut inner = || -> Result<(), Failure> {
        for (k, &i) in t.order.iter().enumerate() {
            if let Err((msg, loc)) = catch(|| sim.node(t.path[i].as_str(), M { stages: t.created_stages[i], shuts_down: t.shuts_down[i], panics: t.panics[i] })) {
                vfail!("valid-insertion-rejected", "inserting '{}' (its parent exists, the path is new) panicked: {msg} @ {loc}", t.path[i]);
            }
            // rejected insertions after this step
            for (at, bad) in &case.bad {
                if idx(*at, n) != k {
                    continue;
                }
                bad_done += 1;
                match bad {
                    Bad::Duplicate(j) => {
                        let dup = &t.path[t.order[idx(*j, k + 1)]];
                        match catch(|| sim.node(dup.as_str(), M { stages: 1, shuts_down: false, panics: false })) {
                            Ok(()) => vfail!("duplicate-path-accepted", "node '{dup}' was inserted twice without a panic"),
                            Err((msg, _)) => vensure!(
                                msg.contains("allready exists"),
                                "duplicate-path-wrong-panic",
                                "inserting duplicate '{dup}' panicked with an undocumented message: {msg}"
                            ),
                        }
                    }
                    Bad::Orphan(j) => {
                        let base = &t.path[t.order[idx(*j, k + 1)]];
                        let orphan = format!("{base}.nope.child");
                        match catch(|| sim.node(orphan.as_str(), M { stages: 1, shuts_down: false, panics: false })) {
                            Ok(()) => vfail!("orphan-accepted", "node '{orphan}' was inserted although its parent does not exist"),
                            Err((msg, _)) => vensure!(
                                msg.contains("does not exist"),
                                "orphan-wrong-panic",
                                "inserting orphan '{orphan}' panicked with an undocumented message: {msg}"
                            ),
                        }
                    }
                }
            }
        }
        // lookups agree with the declared tree
        for i in 0..n {
            let m = sim.get(&ObjectPath::from(t.path[i].as_str()));
            let Some(m) = m else { vfail!("lookup-missing", "module '{}' cannot be looked up", t.path[i]) };
            vensure!(m.path().as_str() == t.path[i], "path-mismatch", "module '{}' reports path '{}'", t.path[i], m.path());
            let name = t.path[i].rsplit('.').next().unwrap();
            vensure!(m.name() == name, "name-mismatch", "module '{}' reports name '{}'", t.path[i], m.name());
            match (t.parent[i], m.parent()) {
                (Some(p), Ok(pm)) => vensure!(
                    pm.path().as_str() == t.path[p] && Some(pm.id()) == sim.get(&ObjectPath::from(t.path[p].as_str())).map(|d| d.id()),
                    "parent-mismatch",
                    "parent of '{}' is '{}' (id {:?}), declared '{}'",
                    t.path[i],
                    pm.path(),
                    pm.id(),
                    t.path[p]
                ),
                (None, Err(_)) => {}
                (Some(p), Err(e)) => vfail!("parent-mismatch", "parent of '{}' ('{}') not found: {e:?}", t.path[i], t.path[p]),
                (None, Ok(pm)) => vfail!("parent-mismatch", "top-level '{}' has a parent '{}'", t.path[i], pm.path()),
            }
            for j in 0..n {
                let cname = t.path[j].rsplit('.').next().unwrap();
                let is_child = t.parent[j] == Some(i);
                if is_child {
                    match m.child(cname) {
                        Ok(c) => {
                            vensure!(c.path().as_str() == t.path[j], "child-mismatch", "child '{cname}' of '{}' is '{}'", t.path[i], c.path());
                            // the very module that was declared, not another object that merely carries its path
                            let declared = sim.get(&ObjectPath::from(t.path[j].as_str())).map(|d| d.id());
                            vensure!(
                                Some(c.id()) == declared,
                                "child-mismatch",
                                "child '{cname}' of '{}' resolves to module id {:?}, the module declared at '{}' has id {:?}",
                                t.path[i],
                                c.id(),
                                t.path[j],
                                declared
                            );
                        }
                        Err(e) => vfail!("child-mismatch", "child '{cname}' of '{}' not found: {e:?}", t.path[i]),
                    }
                }
            }
            vensure!(m.child("no-such-child").is_err(), "child-mismatch", "'{}' has a child 'no-such-child'", t.path[i]);
        }
        // late configuration through the module handle
        for i in 0..n {
            if t.created_stages[i] != t.stages[i] {
                let m = sim.get(&ObjectPath::from(t.path[i].as_str())).expect("module");
                m.as_mut::<M>().stages = t.stages[i];
            }
        }
        let listed: Vec<String> = sim.nodes().map(|p| p.as_str().to_string()).collect();
        let want: Vec<String> = preorder(&t).iter().map(|i| t.path[*i].clone()).collect();
        vensure!(listed == want, "tree-order", "Sim::nodes() lists {:?}, depth-first pre-order is {:?}", listed, want);
        Ok(())
    };
    if let Err(f) = inner() {
        drop(sim);
        return Err(f);
    }
    // module ids as declared, to compare the lookups after the run with
    let ids_before: Vec<Option<des::net::module::ModuleId>> = t.path.iter().map(|p| sim.get(&ObjectPath::from(p.as_str())).map(|m| m.id())).collect();
    let rt = Builder::seeded(7).quiet().build(sim.freeze());
    let res = rt.run();
    let log = net::log_take();
    let ok = res.is_ok();
    // the tree is still the declared one after the run: every path resolves to the module that was declared there,
    // whether that module is still active, shut itself down or panicked
    let mut after: Result<(), Failure> = Ok(());
    if let Ok((sim_after, _, _)) = &res {
        for (i, p) in t.path.iter().enumerate() {
            let got = sim_after.get(&ObjectPath::from(p.as_str())).map(|m| m.id());
            if got != ids_before[i] && after.is_ok() {
                after = Err(Failure::new(
                    "lookup-missing",
                    format!(
                        "after the run, module '{p}'{} resolves to {got:?}; it was declared with id {:?}",
                        if t.shuts_down[i] && t.stages[i] >= 1 { " (which shut itself down)" } else { "" },
                        ids_before[i]
                    ),
                ));
            }
        }
    }
    drop(res);
    after?;
    // a module that reaches its delayed message and panics there makes run() return an error, and only that
    let panicked: Vec<bool> = (0..n).map(|i| t.panics[i] && t.stages[i] >= 1).collect();
    let any_panic = panicked.iter().any(|p| *p);
    vensure!(
        ok != any_panic,
        "run-returned-error",
        "run() returned {} although {} module panicked",
        if ok { "Ok" } else { "an error" },
        if any_panic { "a" } else { "no" }
    );

    // expected start sequence
    let pre = preorder(&t);
    let max_stage = t.stages.iter().copied().max().unwrap_or(0);
    let mut want: Vec<(String, i64)> = Vec::new();
    for stage in 0..max_stage {
        for &i in &pre {
            if stage < t.stages[i] {
                want.push((t.path[i].clone(), stage as i64));
            }
        }
    }
    let starts: Vec<(String, i64)> = log.iter().filter(|r| r.kind == "start").map(|r| (r.path.clone(), r.a)).collect();
    for (k, (g, w)) in starts.iter().zip(want.iter()).enumerate() {
        vensure!(
            g == w,
            "start-order",
            "at_sim_start call #{k} is {}(stage {}), expected {}(stage {}); full order {:?}",
            g.0,
            g.1,
            w.0,
            w.1,
            starts
        );
    }
    vensure!(starts.len() == want.len(), "start-count", "{} at_sim_start calls, expected {}", starts.len(), want.len());
    // all starts precede all handles precede all ends; each module ends once
    let first_handle = log.iter().position(|r| r.kind == "handle").unwrap_or(log.len());
    let last_start = log.iter().rposition(|r| r.kind == "start").map_or(0, |p| p + 1);
    vensure!(last_start <= first_handle, "start-after-event", "an at_sim_start call happened after the first event");
    let last_handle = log.iter().rposition(|r| r.kind == "handle").map_or(0, |p| p + 1);
    let first_end = log.iter().position(|r| r.kind == "end").unwrap_or(log.len());
    vensure!(last_handle <= first_end, "end-before-last-event", "at_sim_end was called before the last event was handled");
    let mut ends: BTreeMap<String, usize> = BTreeMap::new();
    for r in log.iter().filter(|r: &&Rec| r.kind == "end") {
        *ends.entry(r.path.clone()).or_default() += 1;
    }
    for (i, p) in t.path.iter().enumerate() {
        let c = ends.get(p).copied().unwrap_or(0);
        if panicked[i] {
            // whether a module that was deactivated by its own panic is still torn down is C13's subject
            vensure!(c <= 1, "end-count", "at_sim_end of the panicked module '{p}' was called {c} times");
        } else {
            vensure!(c == 1, "end-count", "at_sim_end of '{p}' was called {c} times{}", if any_panic { " (another module panicked during the run)" } else { "" });
        }
    }
    vensure!(ends.keys().all(|k| t.path.contains(k)), "end-count", "at_sim_end called for unknown modules: {:?}", ends.keys());
    let handles = log.iter().filter(|r| r.kind == "handle").count();
    let want_handles = 2 * t.stages.iter().filter(|s| **s >= 1).count();
    vensure!(handles == want_handles, "handle-count", "{handles} messages handled, expected {want_handles}");

    // labels
    let multi_stage = t.stages.iter().any(|s| *s >= 2);
    // children of different parents interleaved in the insertion order
    let mut interleaved = false;
    for w in t.order.windows(3) {
        if let (Some(a), Some(b), Some(c)) = (t.parent[w[0]], t.parent[w[1]], t.parent[w[2]]) {
            if a == c && a != b {
                interleaved = true;
            }
        }
    }
    let mut labels = Vec::new();
    if multi_stage {
        labels.push("stages>=2");
    }
    if interleaved {
        labels.push("children-of-different-parents-interleaved");
    }
    if bad_done > 0 {
        labels.push("rejected-insertion");
    }
    if n >= 10 {
        labels.push("nodes>=10");
    }
    if any_panic {
        labels.push("a-module-panicked-during-the-run");
    }
    if (0..n).any(|i| t.created_stages[i] != t.stages[i]) {
        labels.push("stage-count-changed-after-node-creation");
    }
    if (0..n).any(|i| t.shuts_down[i] && t.stages[i] >= 1) {
        labels.push("module-shut-down-before-the-end");
    }
    Ok((multi_stage && interleaved, labels))
}

impl Prop for C12 {
    const ID: &'static str = "C12";
    type Case = Case;

    fn rule() -> String {
        "proptest: module trees of <= 25 nodes (depth <= 4) with names from a pool sharing prefixes (a, ab, a1, a[0], a[1], b, ba, ä), some of which shut themselves down during the run (they still get at_sim_end), inserted in a \
         generated valid order (parents first, otherwise by generated priorities), per-module stage count 0..3 (for some modules changed through the module handle after the node was created), optionally a module that panics in its delayed handler (run() then reports it and every other module is still torn down once), plus duplicate and orphan insertions \
         under catch_unwind at generated points. Oracle: at_sim_start log == for stage in 0..max: depth-first pre-order (siblings in creation order) \
         filtered by stage < stages(m); all starts before the first event; at_sim_end exactly once per module after the last event; documented \
         panics for duplicate / orphan and the builder stays usable; parent()/child()/path()/name()/Sim::nodes() agree with the declared tree (compared by module id), and after the run every path still resolves to the module declared there. \
         Non-trivial iff some module has >= 2 stages AND children of different parents are interleaved in the insertion order."
            .into()
    }
    fn assumptions() -> Vec<String> {
        vec!["the relative order of at_sim_end calls among modules is not asserted (the property does not state one)".into()]
    }
    fn plan(tier: Tier) -> Plan {
        Plan {
            shards: tier.pick(4, 16),
            cases_per_shard: tier.pick(1_500, 30_000),
            watchdog: StdDuration::from_secs(tier.pick(300, 3600)),
        }
    }
    fn strategy(tier: Tier) -> BoxedStrategy<Case> {
        let max = tier.pick(16, 25);
        let node = (proptest::option::weighted(0.7, any::<u16>()), 0u8..NAMES.len() as u8, 0u8..4, any::<u16>(), proptest::bool::weighted(0.15), proptest::bool::weighted(0.04), proptest::option::weighted(0.15, 0u8..4))
            .prop_map(|(parent, name, stages, prio, shuts_down, panics, late_stages)| NodeSpec { parent, name, stages, prio, shuts_down, panics, late_stages });
        let bad = (any::<u16>(), prop_oneof![any::<u16>().prop_map(Bad::Duplicate), any::<u16>().prop_map(Bad::Orphan)]);
        (proptest::collection::vec(node, 1..max), proptest::collection::vec(bad, 0..3))
            .prop_map(|(nodes, bad)| Case { nodes, bad })
            .boxed()
    }
    fn run(case: &Case) -> Outcome {
        match run_case(case) {
            Ok((nt, labels)) => Outcome::ok(nt, labels),
            Err(f) => Outcome::failed(f),
        }
    }
}
