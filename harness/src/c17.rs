//! C17 – configuration entries reach exactly the modules they address.

use crate::engine::*;
use crate::{vensure, vfail};
use des::prelude::*;
use des_net_utils::props::{Cfg, Props};
use proptest::prelude::*;
use serde::{Deserialize, Serialize};
use serde_yml::Value;
use std::collections::{BTreeMap, BTreeSet};
use std::time::Duration as StdDuration;

pub const NAMES: [&str; 10] = ["node1", "node10", "node1x", "a", "aé", "ä", "lan", "lan0", "b", "ab"];
pub const PROPS: [&str; 8] = ["addr", "x", "tcp.sack", "y.z", "log", "é", "mtu", "b"];
const STRS: [&str; 4] = ["hello", "1.1.1.1", "", "trace"];

#[derive(Clone, Debug, Serialize, Deserialize, PartialEq)]
pub enum Comp {
    Name(u8),
    Any,
}

#[derive(Clone, Debug, Serialize, Deserialize, PartialEq)]
pub enum Val {
    Int(i64),
    Bool(bool),
    Str(u8),
    /// an empty mapping `{}` as the property's value (an entry like any other)
    EmptyMap,
    /// a short list of integers
    List(u8),
}

#[derive(Clone, Debug, Serialize, Deserialize)]
pub struct Entry {
    pub comps: Vec<Comp>,
    pub prop: u8,
    pub val: Val,
}

#[derive(Clone, Debug, Serialize, Deserialize, PartialEq)]
pub enum Ty {
    I64,
    U8,
    Bool,
    Str,
    F64,
    VecStr,
}

#[derive(Clone, Debug, Serialize, Deserialize)]
pub enum TypedOp {
    Read(Ty),
    Write(Ty, u8),
    /// two typed handles (i64 and String) are taken while the key is still absent, then a value is written through
    /// each, the i64 handle first (true) or the String handle first (false): the second write must not retype it
    TwoHandles(bool, u8),
}

#[derive(Clone, Debug, Serialize, Deserialize)]
pub struct Case {
    /// module paths as name indices; the set is closed under prefixes by the interpreter
    pub modules: Vec<Vec<u8>>,
    pub entries: Vec<Entry>,
    /// typed accesses on (module idx, key idx | absent key)
    pub typed: Vec<(u16, u16, Vec<TypedOp>)>,
    /// probe for the known finding: keep entries that shadow a wildcard subtree
    #[serde(default)]
    pub keep_shadowing: bool,
}

pub struct C17;

struct Dummy;
impl Module for Dummy {}

/// A module that configures itself from its own properties while the node is being created (Module::stack runs inside
/// `Sim::node`): it looks up the given keys and records what it saw.
struct Peeker {
    keys: Vec<String>,
    seen: std::rc::Rc<std::cell::RefCell<Vec<(String, Option<Value>)>>>,
}
impl Module for Peeker {
    fn stack(&self, stack: des::net::processing::ProcessingStack) -> des::net::processing::ProcessingStack {
        for k in &self.keys {
            let v = current().prop_raw(k).as_value();
            self.seen.borrow_mut().push((k.clone(), v));
        }
        stack
    }
}

fn name(i: u8) -> &'static str {
    NAMES[i as usize % NAMES.len()]
}

fn key_of(e: &Entry) -> (Vec<String>, String) {
    let comps: Vec<String> = e
        .comps
        .iter()
        .map(|c| match c {
            Comp::Name(i) => name(*i).to_string(),
            Comp::Any => "<any>".to_string(),
        })
        .collect();
    (comps, PROPS[e.prop as usize % PROPS.len()].to_string())
}

fn yaml_val(v: &Val) -> (String, Value) {
    match v {
        Val::Int(i) => (i.to_string(), Value::Number((*i).into())),
        Val::Bool(b) => (b.to_string(), Value::Bool(*b)),
        Val::Str(i) => {
            let s = STRS[*i as usize % STRS.len()];
            (format!("\"{s}\""), Value::String(s.to_string()))
        }
        Val::EmptyMap => ("{}".to_string(), Value::Mapping(Default::default())),
        Val::List(n) => {
            let items: Vec<i64> = (0..(*n % 4) as i64).collect();
            (format!("[{}]", items.iter().map(|i| i.to_string()).collect::<Vec<_>>().join(", ")), Value::Sequence(items.into_iter().map(|i| Value::Number(i.into())).collect()))
        }
    }
}

/// The independent matcher on key components.
fn expected_for(path: &[String], entries: &[(Vec<String>, Value)]) -> BTreeMap<String, Vec<Value>> {
    let mut out: BTreeMap<String, Vec<Value>> = BTreeMap::new();
    for (comps, val) in entries {
        if comps.len() <= path.len() {
            continue;
        }
        let head_ok = path.iter().zip(comps.iter()).all(|(p, c)| c == p || c == "<any>");
        let suffix = &comps[path.len()..];
        if head_ok && suffix.iter().all(|c| c != "<any>") {
            out.entry(suffix.join(".")).or_default().push(val.clone());
        }
    }
    out
}

fn check_props(what: &str, path: &[String], keys: Vec<String>, value_of: &mut dyn FnMut(&str) -> Option<Value>, want: &BTreeMap<String, Vec<Value>>) -> Result<(), Failure> {
    let got: BTreeSet<String> = keys.into_iter().collect();
    let want_keys: BTreeSet<String> = want.keys().cloned().collect();
    for k in got.difference(&want_keys) {
        vfail!(
            "foreign-entry-leaked",
            "{what}: module '{}' received property '{k}' which no configuration entry addresses to it (expected keys {:?})",
            path.join("."),
            want_keys
        );
    }
    for k in want_keys.difference(&got) {
        vfail!(
            "addressed-entry-missing",
            "{what}: module '{}' did not receive property '{k}' although an entry addresses it (got keys {:?})",
            path.join("."),
            got
        );
    }
    for (k, vals) in want {
        let v = value_of(k);
        vensure!(
            v.as_ref().is_some_and(|v| vals.contains(v)),
            "wrong-value",
            "{what}: module '{}' property '{k}' has value {v:?}, the matching entries carry {vals:?}",
            path.join(".")
        );
    }
    Ok(())
}

fn yaml_text(entries: &[(String, String)]) -> String {
    let mut s = String::new();
    for (k, v) in entries {
        s.push_str(&format!("\"{k}\": {v}\n"));
    }
    s
}

/// Known finding `scalar-entry-shadows-wildcard-subtree`: an entry V whose full key equals the part of a wildcard
/// entry W in front of one of W's '<any>' components (e.g. 'a.b: 0' next to 'a.b.<any>.addr: 0') makes W vanish.
/// Returns the indices of such V entries.
fn shadowing_entries(entries: &[(Vec<String>, Value)]) -> BTreeSet<usize> {
    let mut out = BTreeSet::new();
    for (vi, (v, _)) in entries.iter().enumerate() {
        for (wi, (w, _)) in entries.iter().enumerate() {
            if vi != wi && w.len() > v.len() && w[v.len()] == "<any>" && w[..v.len()] == v[..] {
                out.insert(vi);
            }
        }
    }
    out
}

pub fn run_case(case: &Case) -> Result<(bool, Vec<&'static str>, bool), Failure> {
    // module set, prefix closed, parents first
    let mut mods: Vec<Vec<String>> = Vec::new();
    for m in &case.modules {
        for d in 1..=m.len().min(4) {
            let p: Vec<String> = m[..d].iter().map(|i| name(*i).to_string()).collect();
            if !mods.contains(&p) {
                mods.push(p);
            }
        }
    }
    // entries, deduplicated by full key (a YAML mapping cannot hold a key twice)
    let mut seen = BTreeSet::new();
    let mut entries: Vec<(Vec<String>, Value)> = Vec::new();
    let mut text_entries: Vec<(String, String)> = Vec::new();
    for e in &case.entries {
        let (comps, prop) = key_of(e);
        let mut all = comps.clone();
        all.extend(prop.split('.').map(str::to_string));
        let key = all.join(".");
        if !seen.insert(key.clone()) {
            continue;
        }
        let (txt, val) = yaml_val(&e.val);
        entries.push((all, val));
        text_entries.push((key, txt));
    }
    let shadow = shadowing_entries(&entries);
    let excluded = !shadow.is_empty() && !case.keep_shadowing;
    if excluded {
        let mut i = 0;
        entries.retain(|_| {
            i += 1;
            !shadow.contains(&(i - 1))
        });
        let mut i = 0;
        text_entries.retain(|_| {
            i += 1;
            !shadow.contains(&(i - 1))
        });
    }
    let known_shape = !shadow.is_empty() && case.keep_shadowing;
    let text = yaml_text(&text_entries);
    let parsed: Value = match serde_yml::from_str(&text) {
        Ok(v) => v,
        Err(e) => vfail!("harness-yaml", "harness produced YAML that does not parse: {e}\n{text}"),
    };
    let cfg = match catch(|| Cfg::new(parsed.clone())) {
        Ok(c) => c,
        Err((msg, loc)) => vfail!("cfg-new-panicked", "Cfg::new panicked: {msg} @ {loc}\n{text}"),
    };
    let mut captured: Vec<Props> = Vec::new();
    for path in &mods {
        let want = expected_for(path, &entries);
        let parts: Vec<&str> = path.iter().map(String::as_str).collect();
        let props = match catch(|| cfg.capture_for_into(&parts)) {
            Ok(p) => p,
            Err((msg, loc)) => vfail!(
                "capture-panicked",
                "capture_for({:?}) panicked: {msg} @ {loc}\nconfig:\n{text}",
                path.join(".")
            ),
        };
        let keys = props.keys();
        let mut props = props;
        check_props("direct capture", path, keys, &mut |k| props.get_raw(k).as_value(), &want).map_err(|f| {
            let sig = if known_shape && f.sig == "addressed-entry-missing" {
                "scalar-entry-shadows-wildcard-subtree".to_string()
            } else {
                f.sig
            };
            Failure::new(sig, format!("{}\nconfig:\n{text}", f.msg))
        })?;
        captured.push(props);
    }
    // through the simulation builder, both include orders
    let mut peeked = false;
    for order in 0..3 {
        let mut pretyped: Vec<(usize, String)> = Vec::new();
        let what = match order {
            0 => "include_cfg before node()",
            1 => "node() before include_cfg",
            _ => "include_cfg before node(), the module looks at its properties while it is created",
        };
        let mut sim = Sim::new(());
        let seen: Vec<std::rc::Rc<std::cell::RefCell<Vec<(String, Option<Value>)>>>> = mods.iter().map(|_| Default::default()).collect();
        let r = catch(|| {
            if order != 1 {
                sim.include_cfg(&text);
            }
            for (mi, path) in mods.iter().enumerate() {
                if order == 2 && mi % 3 != 2 {
                    // every addressed key except each third one, plus a key nobody addresses
                    let mut keys: Vec<String> = expected_for(path, &entries).keys().enumerate().filter(|(i, _)| i % 3 != 1).map(|(_, k)| k.clone()).collect();
                    keys.push("not-addressed".to_string());
                    sim.node(path.join("."), Peeker { keys, seen: seen[mi].clone() });
                } else {
                    sim.node(path.join("."), Dummy);
                }
            }
            if order == 1 {
                // a property that was typed (written) before the late include keeps type and value
                for (mi, path) in mods.iter().enumerate() {
                    let want = expected_for(path, &entries);
                    if let Some(k) = want.keys().nth(mi % 3) {
                        if mi % 2 == 0 {
                            let m = sim.get(&ObjectPath::from(path.join("."))).expect("module exists");
                            if let Ok(mut p) = m.prop::<i64>(k) {
                                p.set(123_456_789);
                                pretyped.push((mi, k.clone()));
                            }
                        }
                    }
                }
                sim.include_cfg(&text);
            }
        });
        if let Err((msg, loc)) = r {
            drop(sim);
            vfail!("capture-panicked", "{what}: panicked: {msg} @ {loc}\nconfig:\n{text}");
        }
        let mut res = Ok(());
        for (mi, path) in mods.iter().enumerate() {
            let mut want = expected_for(path, &entries);
            let m = sim.get(&ObjectPath::from(path.join("."))).expect("module exists");
            for (pm, k) in &pretyped {
                if *pm != mi {
                    continue;
                }
                // typed before the include: the late entry must neither retype nor replace it
                want.get_mut(k).map(|v| v.push(Value::Number(123_456_789i64.into())));
                let as_other = m.prop::<String>(k).is_ok();
                let as_same = m.prop::<i64>(k).ok().and_then(|p| p.get());
                if as_other || as_same != Some(123_456_789) {
                    res = Err(Failure::new(
                        "late-include-retyped-property",
                        format!(
                            "module '{}' wrote property '{k}' as i64 = 123456789 before include_cfg; afterwards reading it as String {} and as i64 gives {as_same:?}\nconfig:\n{text}",
                            path.join("."),
                            if as_other { "succeeds" } else { "fails" }
                        ),
                    ));
                }
            }
            if res.is_err() {
                break;
            }
            for (k, v) in seen[mi].borrow().iter() {
                let ok = match want.get(k) {
                    Some(vals) => v.as_ref().is_some_and(|v| vals.contains(v)),
                    None => v.is_none(),
                };
                if !ok {
                    res = Err(Failure::new(
                        "value-during-creation",
                        format!(
                            "{what}: module '{}' saw property '{k}' = {v:?} while it was created, the matching entries carry {:?}\nconfig:\n{text}",
                            path.join("."),
                            want.get(k)
                        ),
                    ));
                }
            }
            if res.is_err() {
                break;
            }
            if !seen[mi].borrow().is_empty() {
                peeked = true;
            }
            // a key that was merely looked up (and has no entry) is not a received property
            let keys: Vec<String> = m.props_keys().into_iter().filter(|k| !(k == "not-addressed" && m.prop_raw(k).as_value().is_none())).collect();
            res = check_props(what, path, keys, &mut |k| m.prop_raw(k).as_value(), &want)
                .map_err(|f| Failure::new(f.sig, format!("{}\nconfig:\n{text}", f.msg)));
            if res.is_err() {
                break;
            }
        }
        drop(sim);
        res?;
    }
    // typed accesses
    let mut typed_nt = false;
    let mut touched: BTreeSet<(usize, String)> = BTreeSet::new();
    for (mi, ki, ops) in &case.typed {
        if mods.is_empty() {
            break;
        }
        let m = idx(*mi, mods.len());
        let want = expected_for(&mods[m], &entries);
        let keys: Vec<String> = want.keys().cloned().collect();
        // every other pick is a key that no entry provides
        let (key, init): (String, Option<Value>) = if keys.is_empty() || *ki % 4 == 3 {
            ("absent.key".to_string(), None)
        } else {
            let k = keys[idx(*ki, keys.len())].clone();
            let v = captured[m].get_raw(&k).as_value();
            (k, v)
        };
        // one typed sequence per (module, key): the store keeps the state of earlier sequences
        if !touched.insert((m, key.clone())) {
            continue;
        }
        typed_check(&mut captured[m], &key, init, ops, &mut typed_nt)?;
    }
    // labels
    let mut labels = Vec::new();
    let mut sibling_prefix = false;
    let mut overlap = false;
    let mut deep = false;
    for path in &mods {
        let want = expected_for(path, &entries);
        if path.len() >= 2 && !want.is_empty() {
            deep = true;
        }
        if want.values().any(|v| v.len() >= 2) {
            overlap = true;
        }
        // an entry addressed to a sibling whose name has this module's name as a textual prefix
        let me = path.last().unwrap();
        for (comps, _) in &entries {
            if comps.len() > path.len()
                && comps[..path.len() - 1].iter().zip(path.iter()).all(|(c, p)| c == p)
                && comps[path.len() - 1] != *me
                && comps[path.len() - 1].starts_with(me.as_str())
            {
                sibling_prefix = true;
            }
        }
    }
    if sibling_prefix {
        labels.push("entry-for-sibling-with-prefix-name");
    }
    if overlap {
        labels.push("wildcard-and-specific-overlap");
    }
    if deep {
        labels.push("depth>=2");
    }
    if entries.iter().any(|(c, _)| c.iter().filter(|x| *x == "<any>").count() >= 2) {
        labels.push("two-wildcards");
    }
    if peeked {
        labels.push("module-reads-properties-during-creation");
    }
    if typed_nt {
        labels.push("typed-mismatch-after-typed-read");
    }
    if excluded {
        labels.push("known-finding-shape-removed");
    }
    Ok((sibling_prefix && overlap && deep, labels, excluded))
}

#[derive(Clone, Debug, PartialEq)]
enum TState {
    Absent,
    Yaml(Value),
    Typed(Ty, String),
}

fn natural(v: &Value) -> Vec<Ty> {
    match v {
        Value::Number(n) => {
            let mut t = vec![Ty::I64];
            if n.as_u64().is_some_and(|x| x <= 255) {
                t.push(Ty::U8);
            }
            t
        }
        Value::Bool(_) => vec![Ty::Bool],
        Value::String(_) => vec![Ty::Str],
        _ => vec![],
    }
}

fn typed_check(props: &mut Props, key: &str, init: Option<Value>, ops: &[TypedOp], nt: &mut bool) -> Result<(), Failure> {
    let mut state = match init {
        Some(v) => TState::Yaml(v),
        None => TState::Absent,
    };
    macro_rules! read {
        ($t:ty) => {{
            match props.get::<$t>(key) {
                Ok(p) => Ok(p.get().map(|v| format!("{v:?}"))),
                Err(_) => Err(()),
            }
        }};
    }
    macro_rules! write {
        ($t:ty, $v:expr) => {{
            match props.get::<$t>(key) {
                Ok(mut p) => {
                    p.set($v);
                    Ok(format!("{:?}", $v))
                }
                Err(_) => Err(()),
            }
        }};
    }
    for (i, op) in ops.iter().enumerate() {
        match op {
            TypedOp::Read(ty) => {
                let got: Result<Option<String>, ()> = match ty {
                    Ty::I64 => read!(i64),
                    Ty::U8 => read!(u8),
                    Ty::Bool => read!(bool),
                    Ty::Str => read!(String),
                    Ty::F64 => read!(f64),
                    Ty::VecStr => read!(Vec<String>),
                };
                match &state {
                    TState::Absent => {
                        vensure!(
                            got == Ok(None),
                            "typed-read-of-absent-key",
                            "op {i}: reading absent key '{key}' as {ty:?} gave {got:?}"
                        );
                    }
                    TState::Yaml(v) => match got {
                        Ok(Some(s)) => state = TState::Typed(ty.clone(), s),
                        Ok(None) => vfail!("typed-read-lost-value", "op {i}: key '{key}' = {v:?} read as {ty:?} gave no value"),
                        Err(()) => {
                            vensure!(
                                !natural(v).contains(ty),
                                "natural-type-rejected",
                                "op {i}: key '{key}' = {v:?} cannot be read as {ty:?}"
                            );
                        }
                    },
                    TState::Typed(t0, s0) => {
                        if t0 == ty {
                            vensure!(
                                got == Ok(Some(s0.clone())),
                                "typed-value-changed",
                                "op {i}: key '{key}' holds {s0} as {t0:?} but reads {got:?}"
                            );
                        } else {
                            *nt = true;
                            vensure!(
                                got.is_err(),
                                "type-reinterpreted",
                                "op {i}: key '{key}' was first used as {t0:?} ({s0}) but reading it as {ty:?} succeeded: {got:?}"
                            );
                        }
                    }
                }
            }
            TypedOp::TwoHandles(int_first, n) => {
                if !matches!(state, TState::Absent) {
                    continue;
                }
                let (hi, hs) = (props.get::<i64>(key), props.get::<String>(key));
                let (Ok(mut hi), Ok(mut hs)) = (hi, hs) else {
                    vfail!("typed-read-of-absent-key", "op {i}: a typed handle for the absent key '{key}' could not be taken")
                };
                let (vi, vs) = (*n as i64 - 7, format!("h{n}"));
                // the losing write may be refused in any way (error, panic); it must not succeed in retyping
                let (first, want) = if *int_first {
                    hi.set(vi);
                    let _ = catch(|| hs.set(vs.clone()));
                    (Ty::I64, format!("{vi:?}"))
                } else {
                    hs.set(vs.clone());
                    let _ = catch(|| hi.set(vi));
                    (Ty::Str, format!("{vs:?}"))
                };
                *nt = true;
                let as_int = props.get::<i64>(key).ok().map(|p| p.get().map(|v| format!("{v:?}")));
                let as_str = props.get::<String>(key).ok().map(|p| p.get().map(|v| format!("{v:?}")));
                let (same, other) = if *int_first { (as_int, as_str) } else { (as_str, as_int) };
                vensure!(
                    same == Some(Some(want.clone())) && other.is_none(),
                    "type-reinterpreted",
                    "op {i}: key '{key}' was first written as {first:?} = {want} through one handle and then written through a handle of the other type taken earlier: reading it as {first:?} gives {same:?}, as the other type {other:?}"
                );
                state = TState::Typed(first, want);
            }
            TypedOp::Write(ty, n) => {
                let got: Result<String, ()> = match ty {
                    Ty::I64 => write!(i64, *n as i64 - 100),
                    Ty::U8 => write!(u8, *n),
                    Ty::Bool => write!(bool, *n % 2 == 0),
                    Ty::Str => write!(String, format!("w{n}")),
                    Ty::F64 => write!(f64, *n as f64 / 4.0),
                    Ty::VecStr => write!(Vec<String>, vec![format!("{n}")]),
                };
                match &state {
                    TState::Absent => {
                        let Ok(s) = got else {
                            vfail!("write-to-absent-key-rejected", "op {i}: writing absent key '{key}' as {ty:?} failed")
                        };
                        state = TState::Typed(ty.clone(), s);
                    }
                    TState::Yaml(v) => match got {
                        Ok(s) => state = TState::Typed(ty.clone(), s),
                        Err(()) => {
                            vensure!(
                                !natural(v).contains(ty),
                                "natural-type-rejected",
                                "op {i}: key '{key}' = {v:?} cannot be written as {ty:?}"
                            );
                        }
                    },
                    TState::Typed(t0, s0) => {
                        if t0 == ty {
                            let Ok(s) = got else {
                                vfail!("same-type-write-rejected", "op {i}: key '{key}' typed {t0:?} rejected a {ty:?} write")
                            };
                            state = TState::Typed(ty.clone(), s);
                        } else {
                            *nt = true;
                            vensure!(
                                got.is_err(),
                                "type-reinterpreted",
                                "op {i}: key '{key}' was first used as {t0:?} ({s0}) but writing it as {ty:?} succeeded"
                            );
                        }
                    }
                }
            }
        }
    }
    // a failed conversion must leave the entry readable with its natural type
    if let TState::Yaml(v) = &state {
        if let Some(t) = natural(v).first() {
            let ok = match t {
                Ty::I64 => props.get::<i64>(key).is_ok(),
                Ty::Bool => props.get::<bool>(key).is_ok(),
                Ty::Str => props.get::<String>(key).is_ok(),
                _ => true,
            };
            vensure!(ok, "natural-type-rejected", "final: key '{key}' = {v:?} is no longer readable as {t:?}");
        }
    }
    Ok(())
}

impl Prop for C17 {
    const ID: &'static str = "C17";
    type Case = Case;

    fn rule() -> String {
        "proptest: module paths of depth 1..4 over a name pool built to collide textually (node1/node10/node1x, a/ab/aé, lan/lan0, ä), closed under \
         prefixes; flat dotted-key YAML with specific components and '<any>' at generated depths (also twice), property names of 1-2 components, scalar \
         values; checked (a) directly via Cfg::capture_for_into, (b) via SimBuilder::include_cfg before node(), (c) node() before include_cfg (also with a property typed before the late include), (d) include_cfg before node() with a module that looks up its properties while it is created. Oracle: \
         an independent matcher on key components gives the exact expected key set per module (iff), each value must come from a matching entry, all \
         routes agree, capture never panics. Typed sub-sequences Read<T>/Write<T>/TwoHandles (two handles of different types taken on an absent key, written through both) on captured and absent keys: the first successful type \
         sticks, another type is an error, failed conversions leave the entry readable with its natural type. Non-trivial iff an entry is addressed to \
         a sibling whose name has the module's name as textual prefix AND a wildcard and a specific entry (or two entries) yield the same property \
         AND a module of depth >= 2 receives a property."
            .into()
    }
    fn assumptions() -> Vec<String> {
        vec![
            "every generated key has a non-empty property name without '<any>' (a key must name a property)".into(),
            "property-name components are disjoint from module names, so no key is both a property of a module and a prefix of a deeper entry".into(),
            "where several entries yield the same property the value of any of them is accepted".into(),
        ]
    }
    fn plan(tier: Tier) -> Plan {
        Plan {
            shards: tier.pick(4, 16),
            cases_per_shard: tier.pick(2_500, 20_000),
            watchdog: StdDuration::from_secs(tier.pick(300, 3600)),
        }
    }
    fn strategy(tier: Tier) -> BoxedStrategy<Case> {
        let nm = 0u8..NAMES.len() as u8;
        let path = proptest::collection::vec(nm.clone(), 1..=4);
        let comp = prop_oneof![3 => nm.prop_map(Comp::Name), 1 => Just(Comp::Any)];
        let val = prop_oneof![
            (-5i64..300).prop_map(Val::Int),
            any::<bool>().prop_map(Val::Bool),
            (0u8..STRS.len() as u8).prop_map(Val::Str),
            Just(Val::EmptyMap),
            (0u8..4).prop_map(Val::List)
        ];
        let free_entry = (proptest::collection::vec(comp, 1..=4), 0u8..PROPS.len() as u8, val.clone())
            .prop_map(|(comps, prop, val)| Entry { comps, prop, val });
        let ty = prop_oneof![Just(Ty::I64), Just(Ty::U8), Just(Ty::Bool), Just(Ty::Str), Just(Ty::F64), Just(Ty::VecStr)];
        let top = prop_oneof![
            6 => ty.clone().prop_map(TypedOp::Read),
            2 => (ty, any::<u8>()).prop_map(|(t, n)| TypedOp::Write(t, n)),
            1 => (any::<bool>(), any::<u8>()).prop_map(|(f, n)| TypedOp::TwoHandles(f, n)),
        ];
        let typed = proptest::collection::vec((any::<u16>(), any::<u16>(), proptest::collection::vec(top, 1..5)), 0..3);
        let (nm_max, ne_max) = tier.pick((5, 10), (8, 20));
        proptest::collection::vec(path, 1..nm_max)
            .prop_flat_map(move |modules| {
                // entries aimed at (prefixes of) the generated module paths: components kept, replaced by '<any>', or
                // replaced by another name of the pool (textual neighbours)
                let ms = modules.clone();
                let aimed = (any::<u16>(), any::<u16>(), proptest::collection::vec(0u8..8, 4), proptest::collection::vec(0u8..NAMES.len() as u8, 4), 0u8..PROPS.len() as u8, val.clone())
                    .prop_map(move |(mi, depth, mask, alt, prop, val)| {
                        let m = &ms[idx(mi, ms.len())];
                        let d = 1 + idx(depth, m.len());
                        let comps = (0..d)
                            .map(|i| match mask[i] {
                                0 | 1 => Comp::Any,
                                2 => Comp::Name(alt[i]),
                                _ => Comp::Name(m[i]),
                            })
                            .collect();
                        Entry { comps, prop, val }
                    });
                let entry = prop_oneof![4 => aimed, 1 => free_entry.clone()];
                (Just(modules), proptest::collection::vec(entry, 0..ne_max), typed.clone())
            })
            .prop_map(|(modules, entries, typed)| Case { modules, entries, typed, keep_shadowing: false })
            .boxed()
    }
    fn run(case: &Case) -> Outcome {
        match run_case(case) {
            Ok((nt, labels, excluded)) => {
                let mut o = Outcome::ok(nt, labels);
                // the shadowing entry was removed, the rest of the case was executed; count the exclusion
                o.excluded = excluded;
                o.nontrivial = nt;
                o
            }
            Err(f) => Outcome::failed(f),
        }
    }
    fn builtin_cases() -> Vec<(String, Case)> {
        // probe for the known finding: 'a.b: 0' next to 'a.b.<any>.addr: 0', module a.b.lan must receive 'addr'
        vec![(
            "known-scalar-entry-shadows-wildcard-subtree".into(),
            Case {
                modules: vec![vec![3, 8, 6]],
                entries: vec![
                    Entry { comps: vec![Comp::Name(3)], prop: 7, val: Val::Int(0) },
                    Entry { comps: vec![Comp::Name(3), Comp::Name(8), Comp::Any], prop: 0, val: Val::Int(0) },
                ],
                typed: vec![],
                keep_shadowing: true,
            },
        )]
    }
    fn extra(tier: Tier, seed: u64, ev: &mut ExtraEvidence) -> Vec<Violation> {
        if tier != Tier::Thorough {
            return Vec::new();
        }
        let mut v = crate::fuzz::run(
            &crate::fuzz::Campaign {
                property: "C17",
                target: "cfg_capture",
                asan: false,
                runs: 300_000,
                max_len: 120,
                seed,
                seeds: crate::fuzz::random_seeds(seed, 24, 120),
                max_time: 600,
            },
            ev,
        );
        v.extend(fuzz_extra("C17", seed, ev));
        v
    }
}
