//! C19 – topology views mirror the gate graph and answer graph queries correctly.

use crate::engine::*;
use crate::{vensure, vfail};
use des::net::topology::Topology;
use des::prelude::*;
use proptest::prelude::*;
use serde::{Deserialize, Serialize};
use std::collections::{BTreeMap, BTreeSet, VecDeque};
use std::time::Duration as StdDuration;

#[derive(Clone, Debug, Serialize, Deserialize)]
pub struct Chain {
    pub a: u16,
    pub b: u16,
    /// owner (module index) of each transit gate between the two endpoints; hops = len + 1 <= 16
    pub transit: Vec<u16>,
}

#[derive(Clone, Debug, Serialize, Deserialize)]
pub struct Case {
    /// per module: parent (index into earlier modules) or None for a top-level module
    pub modules: Vec<Option<u16>>,
    pub chains: Vec<Chain>,
    /// extra gates that stay unconnected: (module, cluster size)
    pub standalone: Vec<(u16, u8)>,
    pub root: u16,
    pub src: u16,
    /// bit i set: keep module i in filter_nodes
    pub keep_nodes: u16,
    /// bit (edge index % 32) set: keep the edge in filter_edges
    pub keep_edges: u32,
}

pub struct C19;

struct Dummy;
impl Module for Dummy {}

type E = (String, String, String, String);

fn edges_of<N, C>(t: &Topology<N, C>, what: &str) -> Result<Vec<E>, Failure> {
    let mut out = Vec::new();
    for e in t.edges() {
        let from_node = e.from.module().path().as_str().to_string();
        let to_node = e.to.module().path().as_str().to_string();
        let fg = e.from.gate();
        let tg = e.to.gate();
        vensure!(
            fg.owner().path().as_str() == from_node,
            "edge-source-node-does-not-own-source-gate",
            "{what}: edge leaves node '{from_node}' but its gate '{}' belongs to '{}'",
            fg.str(),
            fg.owner().path()
        );
        vensure!(
            tg.owner().path().as_str() == to_node,
            "edge-target-node-does-not-own-target-gate",
            "{what}: edge {from_node}:{} points at node '{to_node}' but its far gate '{}' belongs to '{}'",
            fg.str(),
            tg.str(),
            tg.owner().path()
        );
        out.push((from_node, fg.str(), to_node, tg.str()));
    }
    out.sort();
    Ok(out)
}

fn node_paths<N, C>(t: &Topology<N, C>) -> Vec<String> {
    let mut v: Vec<String> = t.nodes().iter().map(|n| n.module().path().as_str().to_string()).collect();
    v.sort();
    v
}

fn reach(adj: &BTreeMap<String, BTreeSet<String>>, from: &str) -> BTreeMap<String, usize> {
    let mut dist = BTreeMap::new();
    dist.insert(from.to_string(), 0usize);
    let mut q = VecDeque::from([from.to_string()]);
    while let Some(x) = q.pop_front() {
        let d = dist[&x];
        if let Some(ns) = adj.get(&x) {
            for n in ns {
                if !dist.contains_key(n) {
                    dist.insert(n.clone(), d + 1);
                    q.push_back(n.clone());
                }
            }
        }
    }
    dist
}

fn adjacency(nodes: &[String], edges: &[E]) -> BTreeMap<String, BTreeSet<String>> {
    let mut adj: BTreeMap<String, BTreeSet<String>> = nodes.iter().map(|n| (n.clone(), BTreeSet::new())).collect();
    for (a, _, b, _) in edges {
        adj.get_mut(a).unwrap().insert(b.clone());
    }
    adj
}

fn is_connected(nodes: &[String], edges: &[E]) -> bool {
    let adj = adjacency(nodes, edges);
    nodes.iter().all(|n| reach(&adj, n).len() == nodes.len())
}

pub fn run_case(case: &Case) -> Result<(bool, Vec<&'static str>), Failure> {
    // module paths
    let mut paths: Vec<String> = Vec::new();
    for (i, parent) in case.modules.iter().enumerate() {
        let p = match parent {
            Some(pi) if i > 0 => format!("{}.n{i}", paths[idx(*pi, i)]),
            _ => format!("m{i}"),
        };
        paths.push(p);
    }
    let n = paths.len();
    let mut sim = Sim::new(());
    for p in &paths {
        sim.node(p.as_str(), Dummy);
    }
    // gates + chains; the model edges come from the description alone
    let mut gate_no = 0usize;
    let mut model: Vec<E> = Vec::new();
    let mut max_hops = 0;
    let mut multi = BTreeMap::<(usize, usize), usize>::new();
    for (ci, ch) in case.chains.iter().enumerate() {
        if ci == case.chains.len() / 2 {
            // an extraction in the middle of the wiring must not influence later extractions
            let early = sim.topology();
            let _ = early.connected();
            let _ = Topology::spanned(sim.get(&ObjectPath::from(paths[idx(case.root, n)].as_str())).unwrap());
        }
        let a = idx(ch.a, n);
        let b = idx(ch.b, n);
        let mut owners = vec![a];
        owners.extend(ch.transit.iter().take(15).map(|t| idx(*t, n)));
        owners.push(b);
        let mut gates = Vec::new();
        for o in &owners {
            let name = format!("g{gate_no}");
            gate_no += 1;
            gates.push((sim.gate(paths[*o].as_str(), &name), name));
        }
        for w in gates.windows(2) {
            w[0].0.clone().connect(w[1].0.clone(), None);
        }
        max_hops = max_hops.max(owners.len() - 1);
        let (ga, gb) = (gates[0].1.clone(), gates[gates.len() - 1].1.clone());
        model.push((paths[a].clone(), ga.clone(), paths[b].clone(), gb.clone()));
        model.push((paths[b].clone(), gb, paths[a].clone(), ga));
        *multi.entry((a.min(b), a.max(b))).or_default() += 1;
    }
    for (m, size) in &case.standalone {
        let size = (*size % 3) as usize + 1;
        let name = format!("s{gate_no}");
        gate_no += 1;
        let _ = sim.gates(paths[idx(*m, n)].as_str(), &name, size);
    }
    model.sort();
    let all_nodes: Vec<String> = {
        let mut v = paths.clone();
        v.sort();
        v
    };
    let result = (|| -> Result<(bool, Vec<&'static str>), Failure> {
        let mut labels = Vec::new();
        // 1. global view
        let topo = sim.topology();
        vensure!(node_paths(&topo) == all_nodes, "global-node-set", "global view nodes {:?}, modules {:?}", node_paths(&topo), all_nodes);
        let got = edges_of(&topo, "global view")?;
        vensure!(got == model, "global-edge-set", "global view edges {:?}\nexpected one per chain endpoint: {:?}", got, model);
        vensure!(
            topo.connected() == is_connected(&all_nodes, &model),
            "connected-wrong",
            "global view: connected() = {} but own BFS says {}",
            topo.connected(),
            !topo.connected()
        );
        vensure!(topo.bidirectional(), "bidirectional-wrong", "the unfiltered gate graph is symmetric but bidirectional() is false");

        // 2. spanned view
        let root = idx(case.root, n);
        let adj = adjacency(&all_nodes, &model);
        let reachable: Vec<String> = reach(&adj, &paths[root]).keys().cloned().collect();
        let sp = match catch(|| Topology::spanned(sim.get(&ObjectPath::from(paths[root].as_str())).unwrap())) {
            Ok(t) => t,
            Err((msg, loc)) => vfail!("spanned-panicked", "Topology::spanned('{}') panicked: {msg} @ {loc}", paths[root]),
        };
        vensure!(
            node_paths(&sp) == reachable,
            "spanned-node-set",
            "spanned('{}') nodes {:?}, reachable modules {:?}",
            paths[root],
            node_paths(&sp),
            reachable
        );
        let want: Vec<E> = model.iter().filter(|e| reachable.contains(&e.0)).cloned().collect();
        let got = match catch(|| edges_of(&sp, "spanned view")) {
            Ok(r) => r?,
            Err((msg, loc)) => vfail!("spanned-edge-index-out-of-range", "iterating the edges of spanned('{}') panicked: {msg} @ {loc}", paths[root]),
        };
        vensure!(got == want, "spanned-edge-set", "spanned('{}') edges {:?}\nexpected {:?}", paths[root], got, want);
        vensure!(sp.connected() == is_connected(&reachable, &want), "connected-wrong", "spanned view: connected() wrong");
        // frontier: nodes at distance 1 from the root
        let d = reach(&adj, &paths[root]);
        if d.values().filter(|x| **x == 1).count() >= 2 {
            labels.push("spanned-root-with>=2-frontier-nodes");
        }

        // 3. filter_nodes
        let keep: Vec<String> = paths.iter().enumerate().filter(|(i, _)| case.keep_nodes >> (i % 16) & 1 == 1).map(|(_, p)| p.clone()).collect();
        let mut ft = sim.topology();
        ft.filter_nodes(|node| keep.contains(&node.module().path().as_str().to_string()));
        let mut keep_sorted = keep.clone();
        keep_sorted.sort();
        vensure!(node_paths(&ft) == keep_sorted, "filter-nodes-node-set", "filter_nodes kept {:?}, selected {:?}", node_paths(&ft), keep_sorted);
        let want: Vec<E> = model.iter().filter(|e| keep.contains(&e.0) && keep.contains(&e.2)).cloned().collect();
        let got = match catch(|| edges_of(&ft, "after filter_nodes")) {
            Ok(r) => r?,
            Err((msg, loc)) => vfail!("filter-nodes-edge-index", "iterating edges after filter_nodes panicked: {msg} @ {loc}"),
        };
        vensure!(got == want, "filter-nodes-edge-set", "after filter_nodes edges {:?}\nexpected the edges among the kept nodes {:?}", got, want);
        vensure!(ft.connected() == is_connected(&keep_sorted, &want), "connected-wrong", "filtered view: connected() wrong");
        if keep.len() < n && !keep.is_empty() {
            labels.push("node-filter-removes-some");
        }

        // 3b. filter_nodes with a predicate that has state (an FnMut): decisions are taken by call position, each node
        //     is to be asked exactly once, and the view has to follow exactly the answers that were given
        {
            let mut st = sim.topology();
            let mut asked: Vec<String> = Vec::new();
            let mut chosen: Vec<String> = Vec::new();
            let mut k = 0u32;
            st.filter_nodes(|node| {
                let p = node.module().path().as_str().to_string();
                let keep = case.keep_edges >> (k % 32) & 1 == 1;
                k += 1;
                asked.push(p.clone());
                if keep {
                    chosen.push(p);
                }
                keep
            });
            let mut asked_sorted = asked.clone();
            asked_sorted.sort();
            asked_sorted.dedup();
            vensure!(
                asked.len() == n && asked_sorted.len() == n,
                "filter-nodes-node-set",
                "filter_nodes consulted its predicate {} times for {n} nodes (asked: {:?})",
                asked.len(),
                asked
            );
            chosen.sort();
            vensure!(node_paths(&st) == chosen, "filter-nodes-node-set", "filter_nodes with a counting predicate kept {:?}, the predicate said yes to {:?}", node_paths(&st), chosen);
            let want: Vec<E> = model.iter().filter(|e| chosen.contains(&e.0) && chosen.contains(&e.2)).cloned().collect();
            let got = match catch(|| edges_of(&st, "after filter_nodes (stateful predicate)")) {
                Ok(r) => r?,
                Err((msg, loc)) => vfail!("filter-nodes-edge-index", "iterating edges after filter_nodes panicked: {msg} @ {loc}"),
            };
            vensure!(got == want, "filter-nodes-edge-set", "after filter_nodes with a counting predicate: edges {:?}\nexpected the edges among the kept nodes {:?}", got, want);
        }

        // 4. filter_edges + bidirectional
        let mut et = sim.topology();
        let mut k = 0u32;
        let mut kept: Vec<E> = Vec::new();
        et.filter_edges(|e| {
            let keep = case.keep_edges >> (k % 32) & 1 == 1;
            k += 1;
            if keep {
                kept.push((
                    e.from.module().path().as_str().to_string(),
                    e.from.gate().str(),
                    e.to.module().path().as_str().to_string(),
                    e.to.gate().str(),
                ));
            }
            keep
        });
        kept.sort();
        let got = edges_of(&et, "after filter_edges")?;
        vensure!(got == kept, "filter-edges-edge-set", "after filter_edges edges {:?}, selected {:?}", got, kept);
        vensure!(node_paths(&et) == all_nodes, "filter-edges-node-set", "filter_edges changed the node set");
        // with edges removed asymmetrically the graph is directed: every node must reach every other one
        vensure!(
            et.connected() == is_connected(&all_nodes, &kept),
            "connected-wrong",
            "after filter_edges: connected() = {} but own directed BFS over {:?} says {}",
            et.connected(),
            kept,
            !et.connected()
        );
        let gate_level = kept.iter().all(|(a, g, b, h)| kept.contains(&(b.clone(), h.clone(), a.clone(), g.clone())));
        let node_level = kept.iter().all(|(a, _, b, _)| kept.iter().any(|(x, _, y, _)| x == b && y == a));
        if gate_level == node_level {
            vensure!(
                et.bidirectional() == gate_level,
                "bidirectional-wrong",
                "after filter_edges: bidirectional() = {} but the edge set {:?} is {}symmetric",
                et.bidirectional(),
                kept,
                if gate_level { "" } else { "not " }
            );
            if !gate_level {
                labels.push("asymmetric-after-edge-filter");
            }
        }

        // 5. dijkstra
        let src = idx(case.src, n);
        let dist_from_src = reach(&adj, &paths[src]);
        let dj = topo.dijkstra(paths[src].as_str());
        let keys: BTreeSet<String> = dj.keys().map(|k| k.as_str().to_string()).collect();
        let want_keys: BTreeSet<String> = dist_from_src.keys().filter(|k| **k != paths[src]).cloned().collect();
        vensure!(keys == want_keys, "dijkstra-key-set", "dijkstra('{}') keys {:?}, reachable {:?}", paths[src], keys, want_keys);
        let mut dfs_differs = false;
        for (key, edge) in &dj {
            let from = edge.from.module().path().as_str().to_string();
            let hop = edge.to.module().path().as_str().to_string();
            vensure!(from == paths[src], "dijkstra-edge-not-from-source", "dijkstra('{}')['{key}'] leaves '{from}'", paths[src]);
            vensure!(
                model.contains(&(from.clone(), edge.from.gate().str(), hop.clone(), edge.to.gate().str())),
                "dijkstra-edge-unknown",
                "dijkstra('{}')['{key}'] is not an edge of the graph",
                paths[src]
            );
            let total = dist_from_src[key.as_str()];
            let rest = reach(&adj, &hop).get(key.as_str()).copied();
            vensure!(
                rest == Some(total - 1),
                "dijkstra-not-shortest-first-hop",
                "dijkstra('{}')['{key}'] starts with the edge to '{hop}', from which '{key}' is {rest:?} hops away; the minimum from the source is {total} hops",
                paths[src]
            );
            if total >= 2 {
                dfs_differs = true;
            }
        }
        if dfs_differs {
            labels.push("dijkstra-target-at-distance>=2");
        }
        let multi_edge = multi.values().any(|c| *c >= 2);
        if multi_edge {
            labels.push("multi-edge");
        }
        if max_hops >= 8 {
            labels.push("chain>=8-hops");
        }
        if max_hops == 16 {
            labels.push("chain==16-hops");
        }
        let frontier2 = labels.contains(&"spanned-root-with>=2-frontier-nodes");
        Ok((frontier2 || dfs_differs || multi_edge, labels))
    })();
    drop(sim);
    result
}

impl Prop for C19 {
    const ID: &'static str = "C19";
    type Case = Case;

    fn rule() -> String {
        "proptest: 1..10 modules (flat or nested), 0..14 gate chains each with two endpoint gates (on two modules or the same one) and 0..15 transit gates \
         on arbitrary modules (1..16 hops), multi-edges, isolated modules, unconnected gates and gate clusters; generated root, source, node keep-mask \
         and edge keep-mask. Oracle from the generator's own description: global view node set and edge multiset (from module, from gate, to module, \
         to gate) with the edge's target node owning its target gate; spanned(root) = reachable set + the same edge rule; connected == own BFS; \
         filter_nodes == induced subgraph (pure predicate, and a predicate that decides by call position: asked once per node, view follows the answers given); filter_edges + bidirectional (asserted where gate-level and node-level readings agree); dijkstra: keys == \
         reachable minus source, each value an edge leaving the source whose head is one hop closer (own BFS distances). Non-trivial iff the spanned \
         root has >= 2 frontier nodes, or a dijkstra target lies >= 2 hops away, or a multi-edge exists."
            .into()
    }
    fn assumptions() -> Vec<String> {
        vec![
            "chains of at most 16 hops (the supported length)".into(),
            "bidirectional() is only asserted where the documented gate-level and the implemented node-level reading agree".into(),
        ]
    }
    fn plan(tier: Tier) -> Plan {
        Plan {
            shards: tier.pick(4, 16),
            cases_per_shard: tier.pick(2_000, 45_000),
            watchdog: StdDuration::from_secs(tier.pick(300, 3600)),
        }
    }
    fn strategy(tier: Tier) -> BoxedStrategy<Case> {
        let max_chains = tier.pick(10, 14);
        let chain = (
            any::<u16>(),
            any::<u16>(),
            prop_oneof![
                5 => Just(Vec::new()),
                3 => proptest::collection::vec(any::<u16>(), 1..4),
                1 => proptest::collection::vec(any::<u16>(), 4..=15),
                1 => proptest::collection::vec(any::<u16>(), 15..=15),
            ],
        )
            .prop_map(|(a, b, transit)| Chain { a, b, transit });
        (
            proptest::collection::vec(proptest::option::weighted(0.3, any::<u16>()), 1..=10),
            proptest::collection::vec(chain, 0..max_chains),
            proptest::collection::vec((any::<u16>(), any::<u8>()), 0..3),
            any::<u16>(),
            any::<u16>(),
            prop_oneof![Just(u16::MAX), any::<u16>()],
            prop_oneof![Just(u32::MAX), any::<u32>()],
        )
            .prop_map(|(modules, chains, standalone, root, src, keep_nodes, keep_edges)| Case {
                modules,
                chains,
                standalone,
                root,
                src,
                keep_nodes,
                keep_edges,
            })
            .boxed()
    }
    fn run(case: &Case) -> Outcome {
        match run_case(case) {
            Ok((nt, labels)) => Outcome::ok(nt, labels),
            Err(f) => Outcome::failed(f),
        }
    }
}
