//! C14 – processing elements bracket every module event in stack order.

use crate::engine::*;
use crate::net::{self, st, Rec};
use crate::vensure;
use des::net::module::Stereotyp;
use des::net::processing::{ProcessingElement, ProcessingStack};
use des::prelude::*;
use des::time::sleep_until;
use proptest::prelude::*;
use serde::{Deserialize, Serialize};
use std::time::Duration as StdDuration;

#[derive(Clone, Debug, Serialize, Deserialize, PartialEq)]
pub enum Elem {
    Pass,
    /// adds k to the message id
    Rewrite(u8),
    /// consumes the message iff id % m == r
    ConsumeIf(u8, u8),
    /// passes the message on and sends a copy (id + 1000) to the sink from `incoming`
    AlsoSend,
    /// passes the message on and sends a copy (id + 2000) to the sink from `event_end` of that event
    SendOnEnd,
}

#[derive(Clone, Debug, Serialize, Deserialize)]
pub struct ModSpec {
    pub own: Vec<Elem>,
    pub stages: u8,
    /// wake-up times of the module's task, in units of 2 ms (even milliseconds)
    pub wakes: Vec<u8>,
    /// messages: (time in units of 2 ms + 1 ms (odd milliseconds), id)
    pub msgs: Vec<(u8, u8)>,
    /// the handler forwards every message it sees to the sink (id + 3000)
    pub handler_sends: bool,
    /// at_sim_end returns an error
    #[serde(default)]
    pub end_err: bool,
    /// a joined task is still pending at the end (run() reports NotFinished)
    #[serde(default)]
    pub pending_join: bool,
    /// (n, d): the handler shuts the module down while it handles the n-th message that reaches it and asks for a restart
    /// d * 2 ms + 500 us later (ignored together with `pending_join`)
    #[serde(default)]
    pub restart: Option<(u8, u8)>,
    /// Module::stack adds the module's own elements as one block (`stack.append(block)`) instead of one by one
    #[serde(default)]
    pub own_as_block: bool,
    /// the handler additionally emits this many messages (ids 4000..) with delays 2, 0, 1, 2, 0, 1, .. ms in one go:
    /// many of them share an arrival time, and the times are not emitted in ascending order
    #[serde(default)]
    pub handler_burst: u8,
    /// the handler panics in its (n % 3 + 1)-th call, the module's stereotype declares panics as caught: the event's
    /// brackets are closed all the same, afterwards the module receives nothing but tear-down (only honoured for
    /// modules without a restart request)
    #[serde(default)]
    pub panic_on: Option<u8>,
    /// the handler additionally schedules this many zero-delay messages to its own module (ids 5000.., header kind
    /// 77), one after the other: they arrive at the same instant as events of their own, in the order they were
    /// scheduled, each bracketed by the whole stack; their handler only records them (same restriction as the burst)
    #[serde(default)]
    pub handler_selfs: u8,
}

#[derive(Clone, Debug, Serialize, Deserialize)]
pub struct Case {
    pub global: Vec<Elem>,
    pub mods: Vec<ModSpec>,
    /// build the same network from an NDL description through a registry instead of node()/gate()/connect()
    #[serde(default)]
    pub via_ndl: bool,
}

pub struct C14;

struct PE {
    idx: i64,
    spec: Elem,
    pending_end_send: Option<u16>,
}

impl ProcessingElement for PE {
    fn event_start(&mut self) {
        net::log("es", self.idx, 0);
    }
    fn event_end(&mut self) {
        net::log("ee", self.idx, 0);
        if let Some(id) = self.pending_end_send.take() {
            net::log("send", id as i64 + 2000, 0);
            send(Message::default().id(id + 2000), "out");
        }
    }
    fn incoming(&mut self, mut msg: Message) -> Option<Message> {
        let id = msg.header().id;
        net::log("in", self.idx, id as i64);
        match self.spec {
            Elem::Pass => Some(msg),
            Elem::Rewrite(k) => {
                msg.header_mut().id = id + k as u16;
                Some(msg)
            }
            Elem::ConsumeIf(m, r) => {
                if id % (m as u16).max(1) == r as u16 % (m as u16).max(1) {
                    None
                } else {
                    Some(msg)
                }
            }
            Elem::AlsoSend => {
                net::log("send", id as i64 + 1000, 0);
                send(Message::default().id(id + 1000), "out");
                Some(msg)
            }
            Elem::SendOnEnd => {
                self.pending_end_send = Some(id);
                Some(msg)
            }
        }
    }
}

struct M {
    end_err: bool,
    pending_join: bool,
    own: Vec<Elem>,
    base: usize,
    stages: usize,
    wakes: Vec<u128>,
    handler_sends: bool,
    /// (n-th handled message, restart delay in ns)
    restart: Option<(usize, u128)>,
    seen: usize,
    restarted: bool,
    own_as_block: bool,
    handler_burst: u8,
    panic_on: Option<usize>,
    handler_selfs: u8,
}

fn panic_of(m: &ModSpec, global: &[Elem]) -> Option<usize> {
    // no sending element in the module's stack: whether something sent during the event that deactivates its sender
    // still leaves the module is C09/C13 territory
    if global.iter().chain(m.own.iter()).any(|e| matches!(e, Elem::AlsoSend | Elem::SendOnEnd)) {
        return None;
    }
    match m.panic_on {
        // no timer task either: a task of a module that was deactivated by a panic may resume during tear-down
        // (known finding of C13), which is not this property's subject
        Some(n) if restart_of(m).is_none() && !m.pending_join && m.wakes.is_empty() => Some(n as usize % 3 + 1),
        _ => None,
    }
}

const BURST_DELAYS_MS: [u64; 3] = [2, 0, 1];

impl Module for M {
    fn stack(&self, mut stack: ProcessingStack) -> ProcessingStack {
        let mut block = ProcessingStack::default();
        for (k, e) in self.own.iter().enumerate() {
            let pe = PE {
                idx: (self.base + k) as i64,
                spec: e.clone(),
                pending_end_send: None,
            };
            if self.own_as_block {
                block.append(pe);
            } else {
                stack.append(pe);
            }
        }
        if self.own_as_block {
            stack.append(block);
        }
        stack
    }
    fn num_sim_start_stages(&self) -> usize {
        self.stages
    }
    fn at_sim_start(&mut self, stage: usize) {
        net::log("h-start", stage as i64, 0);
        if self.restarted {
            // second incarnation: the stages are replayed, the tasks are not started again
            return;
        }
        if stage == 0 && self.pending_join {
            current().join(tokio::spawn(std::future::pending::<()>()));
        }
        if stage == 0 && !self.wakes.is_empty() {
            let wakes = self.wakes.clone();
            tokio::spawn(async move {
                for (k, w) in wakes.into_iter().enumerate() {
                    sleep_until(st(w)).await;
                    net::log("h-wake", k as i64, 0);
                }
            });
        }
    }
    fn handle_message(&mut self, msg: Message) {
        let id = msg.header().id;
        net::log("h-msg", id as i64, 0);
        if msg.header().kind == 77 {
            return;
        }
        if self.panic_on == Some(self.seen + 1) {
            panic!("injected fault in handle_message");
        }
        if self.handler_sends {
            net::log("send", id as i64 + 3000, 0);
            send(Message::default().id(id + 3000), "out");
        }
        for j in 0..self.handler_burst as u16 {
            net::log("send", 4000 + j as i64, 0);
            send_in(Message::default().id(4000 + j), "out", Duration::from_millis(BURST_DELAYS_MS[j as usize % 3]));
        }
        for j in 0..self.handler_selfs as u16 {
            schedule_in(Message::default().kind(77).id(5000 + j), Duration::ZERO);
        }
        self.seen += 1;
        if let Some((n, delay)) = self.restart {
            if self.seen == n && !self.restarted {
                self.restarted = true;
                let at = SimTime::now().as_nanos() + delay;
                current().shutdow_and_restart_at(st(at));
            }
        }
    }
    fn at_sim_end(&mut self) -> Result<(), RuntimeError> {
        net::log("h-end", 0, 0);
        if self.end_err {
            return Err(RuntimeError::from(std::io::Error::other("injected tear-down error")));
        }
        Ok(())
    }
}

struct Sink;
impl Module for Sink {
    fn handle_message(&mut self, msg: Message) {
        net::log("sink", msg.header().id as i64, 0);
    }
}

fn rec(path: &str, kind: &str, a: i64, b: i64, now: u128) -> Rec {
    Rec {
        path: path.to_string(),
        kind: kind.to_string(),
        now,
        a,
        b,
    }
}

/// The burst is only emitted by modules that never shut down and are never deactivated by a panic: a delayed message whose departure falls into the
/// downtime of its sender is dropped (C09), which this check does not model.
fn burst_of(m: &ModSpec, global: &[Elem]) -> u8 {
    if restart_of(m).is_some() || panic_of(m, global).is_some() {
        0
    } else {
        m.handler_burst % 48
    }
}

fn selfs_of(m: &ModSpec, global: &[Elem]) -> u8 {
    if restart_of(m).is_some() || panic_of(m, global).is_some() {
        0
    } else {
        m.handler_selfs % 6
    }
}

fn restart_of(m: &ModSpec) -> Option<(usize, u128)> {
    match m.restart {
        Some((n, d)) if !m.pending_join => Some((n as usize % 4 + 1, d as u128 * 2_000_000 + 500_000)),
        _ => None,
    }
}

pub fn run_case(case: &Case) -> Result<(bool, Vec<&'static str>), Failure> {
    let g = case.global.len();
    // an NDL-built network has one target module: the order in which a description's submodules are created (and
    // hence started and torn down) is not this property's subject
    let mods: Vec<&ModSpec> = case.mods.iter().take(if case.via_ndl { 1 } else { 2 }).collect();
    net::log_clear();
    let global = case.global.clone();
    let mut sim = Sim::new(()).with_stack(move || {
        let mut s = ProcessingStack::default();
        for (k, e) in global.iter().enumerate() {
            s.append(PE {
                idx: k as i64,
                spec: e.clone(),
                pending_end_send: None,
            });
        }
        s
    });
    let names: Vec<String> = (0..mods.len()).map(|i| format!("m{i}")).collect();
    // timelines: wakes at even ms, messages at odd ms; distinct per module: module i shifted by i*100 us
    let mut timeline: Vec<(u128, usize, Option<u16>, usize)> = Vec::new(); // (time, module, Some(id)=message | None=wake, ordinal)
    let mut built: Vec<M> = Vec::new();
    for (i, m) in mods.iter().enumerate() {
        let mut wakes: Vec<u128> = m.wakes.iter().map(|w| (*w as u128 + 1) * 2_000_000 + i as u128 * 100_000).collect();
        wakes.sort_unstable();
        wakes.dedup();
        for (k, w) in wakes.iter().enumerate() {
            timeline.push((*w, i, None, k));
        }
        built.push(
            M {
                end_err: m.end_err,
                pending_join: m.pending_join && (m.stages % 3) >= 1,
                own: m.own.clone(),
                base: g,
                stages: (m.stages % 3) as usize,
                wakes,
                handler_sends: m.handler_sends,
                restart: restart_of(m),
                seen: 0,
                restarted: false,
                own_as_block: m.own_as_block,
                handler_burst: burst_of(m, &case.global),
                panic_on: panic_of(m, &case.global),
                handler_selfs: selfs_of(m, &case.global),
            },
        );
    }
    if case.via_ndl {
        // the same modules, gates and connections, described in NDL and created by a registry
        struct Root;
        impl Module for Root {}
        let n = built.len();
        let mut text = String::from("entry: Net\nmodules:\n  Net:\n    submodules:\n");
        for i in 0..n {
            text.push_str(&format!("      m{i}: T{i}\n"));
        }
        text.push_str("      sink: Snk\n    connections:\n");
        for i in 0..n {
            text.push_str(&format!("    - peers: [\"m{i}/out\", \"sink/in[{i}]\"]\n"));
        }
        for i in 0..n {
            text.push_str(&format!("  T{i}:\n    gates:\n    - out\n"));
        }
        text.push_str(&format!("  Snk:\n    gates:\n    - \"in[{}]\"\n", n.max(1)));
        let def: des::net::ndl::Def = match serde_yml::from_str(&text) {
            Ok(d) => d,
            Err(e) => {
                drop(sim);
                return Err(Failure::new("harness-ndl", format!("harness produced NDL that does not parse: {e}\n{text}")));
            }
        };
        let mut it = built.into_iter();
        let m0 = std::cell::RefCell::new(it.next());
        let m1 = std::cell::RefCell::new(it.next());
        let mut reg = des::net::ndl::Registry::new()
            .symbol_fn("Net", |_| Root)
            .symbol_fn("Snk", |_| Sink)
            .symbol_fn("T0", move |_| m0.borrow_mut().take().expect("T0 is created once"))
            .symbol_fn("T1", move |_| m1.borrow_mut().take().expect("T1 is created once"));
        if let Err(e) = sim.nodes_from_ndl(&def, &mut reg) {
            drop(sim);
            return Err(Failure::new("harness-ndl", format!("the harness' NDL description does not build: {e}\n{text}")));
        }
    } else {
        for (i, m) in built.into_iter().enumerate() {
            sim.node(names[i].as_str(), m);
        }
        sim.node("sink", Sink);
        let sink_in = sim.gates("sink", "in", mods.len().max(1));
        for (i, name) in names.iter().enumerate() {
            sim.gate(name.as_str(), "out").connect(sink_in[i].clone(), None);
        }
    }
    let targets: Vec<ModuleRef> = names.iter().map(|n| sim.get(&ObjectPath::from(n.as_str())).unwrap()).collect();
    for (i, m) in mods.iter().enumerate() {
        if panic_of(m, &case.global).is_some() {
            targets[i].set_stereotyp(Stereotyp::SUBPROCESS);
        }
    }
    let mut rt = Builder::seeded(5).quiet().build(sim.freeze());
    for (i, m) in mods.iter().enumerate() {
        let mut used = std::collections::BTreeSet::new();
        for (k, (t, id)) in m.msgs.iter().enumerate() {
            let time = (*t as u128) * 2_000_000 + 1_000_000 + i as u128 * 100_000 + k as u128; // distinct instants
            if !used.insert(time) {
                continue;
            }
            timeline.push((time, i, Some(*id as u16), k));
            rt.handle_message_on(targets[i].clone(), Message::default().id(*id as u16), st(time));
        }
    }
    drop(targets);
    let res = rt.run();
    let log = net::log_take();
    let ok = res.is_ok();
    drop(res);
    let expect_err = mods.iter().any(|m| m.end_err || (m.pending_join && (m.stages % 3) >= 1));
    vensure!(
        ok != expect_err,
        "run-result",
        "run() returned {} although {} tear-down error was injected",
        if ok { "Ok" } else { "Err" },
        if expect_err { "a" } else { "no" }
    );

    // expected log of the target modules, and the expected sink sequence
    timeline.sort();
    let mut want: Vec<Rec> = Vec::new();
    // (arrival time at the sink, id); emission order is kept among equal arrival times
    let mut want_sink: Vec<(u128, i64)> = Vec::new();
    let mut consumed_early = false;
    let mut wake_events = 0;
    let seen = std::cell::RefCell::new(vec![0usize; mods.len()]);
    // deactivated by a caught panic of its handler
    let dead = std::cell::RefCell::new(vec![false; mods.len()]);
    let stack_of = |i: usize| -> Vec<Elem> { case.global.iter().cloned().chain(mods[i].own.iter().cloned()).collect() };
    let bracket = |i: usize, now: u128, msg: Option<u16>, handler: Option<(&str, i64)>, want: &mut Vec<Rec>, sink: &mut Vec<(u128, i64)>, consumed_early: &mut bool| {
        let stack = stack_of(i);
        let p = names[i].as_str();
        let mut cur = msg;
        let mut end_sends: Vec<Option<u16>> = vec![None; stack.len()];
        for (k, e) in stack.iter().enumerate() {
            want.push(rec(p, "es", k as i64, 0, now));
            if let Some(id) = cur {
                want.push(rec(p, "in", k as i64, id as i64, now));
                match e {
                    Elem::Pass => {}
                    Elem::Rewrite(d) => cur = Some(id + *d as u16),
                    Elem::ConsumeIf(m, r) => {
                        let m = (*m as u16).max(1);
                        if id % m == *r as u16 % m {
                            cur = None;
                            if k + 1 < stack.len() {
                                *consumed_early = true;
                            }
                        }
                    }
                    Elem::AlsoSend => {
                        want.push(rec(p, "send", id as i64 + 1000, 0, now));
                        sink.push((now, id as i64 + 1000));
                    }
                    Elem::SendOnEnd => end_sends[k] = Some(id),
                }
            }
        }
        let handled = matches!((msg, cur), (Some(_), Some(_)));
        match (msg, cur, handler) {
            // one of the handler's own zero-delay messages: only recorded
            (Some(_), Some(id), Some(("echo", _))) => want.push(rec(p, "h-msg", id as i64, 0, now)),
            (Some(_), Some(id), _) if panic_of(mods[i], &case.global) == Some(seen.borrow()[i] + 1) => {
                // the handler panics right after it was entered; the panic is caught
                want.push(rec(p, "h-msg", id as i64, 0, now));
                dead.borrow_mut()[i] = true;
            }
            (Some(_), Some(id), _) => {
                want.push(rec(p, "h-msg", id as i64, 0, now));
                if mods[i].handler_sends {
                    want.push(rec(p, "send", id as i64 + 3000, 0, now));
                    sink.push((now, id as i64 + 3000));
                }
                for j in 0..burst_of(mods[i], &case.global) as i64 {
                    want.push(rec(p, "send", 4000 + j, 0, now));
                    sink.push((now + BURST_DELAYS_MS[j as usize % 3] as u128 * 1_000_000, 4000 + j));
                }
            }
            (None, _, Some((kind, a))) => want.push(rec(p, kind, a, 0, now)),
            _ => {}
        }
        for k in (0..stack.len()).rev() {
            want.push(rec(p, "ee", k as i64, 0, now));
            if let Some(id) = end_sends[k] {
                want.push(rec(p, "send", id as i64 + 2000, 0, now));
                sink.push((now, id as i64 + 2000));
            }
        }
        handled
    };
    let max_stage = mods.iter().map(|m| (m.stages % 3) as usize).max().unwrap_or(0).max(1);
    for stage in 0..max_stage {
        for i in 0..mods.len() {
            if stage < (mods[i].stages % 3) as usize {
                bracket(i, 0, None, Some(("h-start", stage as i64)), &mut want, &mut want_sink, &mut consumed_early);
            }
        }
    }
    let mut last = 0;
    // per module: messages that reached the handler, restart instant while the module is down, shut down once
    let mut down_until: Vec<Option<u128>> = vec![None; mods.len()];
    let mut was_down = vec![false; mods.len()];
    let mut stale_done = vec![false; mods.len()];
    let mut restart_stage_events = 0;
    let mut ignored_while_down = 0;
    let mut ignored_after_panic = 0;
    let mut self_events = 0;
    // ranges of `want` that may be absent: the timer of the first incarnation's task that was pending at the shutdown is
    // still delivered to the restarted module as an empty (handler-less) event; whether such a stale wake-up is
    // delivered at all is not this property's business, but if it is, it has to be bracketed like any other event
    let mut optional: Vec<(usize, usize)> = Vec::new();
    let mut k = 0;
    loop {
        // the next event is the earlier of the next timeline entry and the earliest pending restart
        let next_restart = (0..mods.len()).filter_map(|i| down_until[i].map(|r| (r, i))).min();
        let entry = timeline.get(k);
        let restart_first = match (next_restart, entry) {
            (Some((r, _)), Some((t, ..))) => r < *t,
            (Some(_), None) => true,
            (None, Some(_)) => false,
            (None, None) => break,
        };
        if restart_first {
            let (r, i) = next_restart.expect("restart");
            down_until[i] = None;
            last = r;
            for stage in 0..(mods[i].stages % 3) as usize {
                restart_stage_events += 1;
                bracket(i, r, None, Some(("h-start", stage as i64)), &mut want, &mut want_sink, &mut consumed_early);
            }
            continue;
        }
        let (t, i, msg, ord) = entry.expect("entry");
        k += 1;
        last = *t;
        match msg {
            Some(_) if down_until[*i].is_some() => ignored_while_down += 1,
            Some(_) if dead.borrow()[*i] => ignored_after_panic += 1,
            Some(id) => {
                if bracket(*i, *t, Some(*id), None, &mut want, &mut want_sink, &mut consumed_early) {
                    seen.borrow_mut()[*i] += 1;
                    let seen_i = seen.borrow()[*i];
                    if !dead.borrow()[*i] {
                        for j in 0..selfs_of(mods[*i], &case.global) as u16 {
                            self_events += 1;
                            bracket(*i, *t, Some(5000 + j), Some(("echo", 0)), &mut want, &mut want_sink, &mut consumed_early);
                        }
                    }
                    if let Some((n, delay)) = restart_of(mods[*i]) {
                        if seen_i == n && !was_down[*i] {
                            was_down[*i] = true;
                            down_until[*i] = Some(*t + delay);
                        }
                    }
                }
            }
            None if dead.borrow()[*i] => {}
            None => {
                // a task exists only if stage 0 ran, and it ends with the first incarnation
                if (mods[*i].stages % 3) as usize >= 1 && !was_down[*i] {
                    wake_events += 1;
                    bracket(*i, *t, None, Some(("h-wake", *ord as i64)), &mut want, &mut want_sink, &mut consumed_early);
                } else if (mods[*i].stages % 3) as usize >= 1 && down_until[*i].is_none() && !stale_done[*i] {
                    stale_done[*i] = true;
                    let from = want.len();
                    bracket(*i, *t, None, None, &mut want, &mut want_sink, &mut consumed_early);
                    optional.push((from, want.len()));
                } else if (mods[*i].stages % 3) as usize >= 1 && was_down[*i] {
                    // the pending timer fires while the module is down: nothing is delivered
                    stale_done[*i] = true;
                }
            }
        }
    }
    // teardown: sends are not delivered any more (documented: no further events), so none are modelled
    let end_now = log.last().map_or(last, |r| r.now);
    for i in 0..mods.len() {
        bracket(i, end_now, None, Some(("h-end", 0)), &mut want, &mut want_sink, &mut consumed_early);
    }
    let got: Vec<Rec> = log.iter().filter(|r| names.contains(&r.path)).cloned().collect();
    // drop the optional groups that the log does not contain
    {
        let mut kept: Vec<Rec> = Vec::new();
        let (mut gi, mut wi) = (0, 0);
        while wi < want.len() {
            if let Some((_, to)) = optional.iter().find(|(from, _)| *from == wi) {
                let n = to - wi;
                if got.len() < gi + n || got[gi..gi + n] != want[wi..*to] {
                    wi = *to;
                    continue;
                }
            }
            kept.push(want[wi].clone());
            wi += 1;
            gi += 1;
        }
        want = kept;
    }
    for (k, (gr, wr)) in got.iter().zip(want.iter()).enumerate() {
        vensure!(
            gr == wr,
            "bracket-order",
            "hook call #{k} is {} but the stack order demands {}\n got: {}\nwant: {}",
            net::fmt_recs(std::slice::from_ref(gr)),
            net::fmt_recs(std::slice::from_ref(wr)),
            net::fmt_recs(&got[k.saturating_sub(6)..(k + 3).min(got.len())]),
            net::fmt_recs(&want[k.saturating_sub(6)..(k + 3).min(want.len())])
        );
    }
    vensure!(
        got.len() == want.len(),
        "bracket-count",
        "{} hook/handler calls logged, expected {}; tail got: {} want: {}",
        got.len(),
        want.len(),
        net::fmt_recs(&got[got.len().saturating_sub(5)..]),
        net::fmt_recs(&want[want.len().saturating_sub(5)..])
    );
    // the global stack is installed on the sink as well: ids are rewritten / messages consumed there too
    want_sink.sort_by_key(|(t, _)| *t); // stable: program order among equal arrival times
    let want_sink: Vec<i64> = want_sink
        .into_iter()
        .filter_map(|(_, id)| {
            let mut cur = id as u16;
            for e in &case.global {
                match e {
                    Elem::Rewrite(d) => cur += *d as u16,
                    Elem::ConsumeIf(m, r) => {
                        let m = (*m as u16).max(1);
                        if cur % m == *r as u16 % m {
                            return None;
                        }
                    }
                    _ => {}
                }
            }
            Some(cur as i64)
        })
        .collect();
    let sink: Vec<i64> = log.iter().filter(|r| r.path == "sink" && r.kind == "sink").map(|r| r.a).collect();
    vensure!(
        sink == want_sink,
        "emit-order",
        "messages sent during events arrived at the sink as {:?}, program order is {:?}",
        sink,
        want_sink
    );
    let mut labels = Vec::new();
    let n_max = (0..mods.len()).map(|i| stack_of(i).len()).max().unwrap_or(0);
    if n_max >= 2 {
        labels.push("stack>=2");
    }
    if consumed_early {
        labels.push("non-last-element-consumes");
    }
    if wake_events > 0 {
        labels.push("timer-wakeup-event");
    }
    if mods.iter().any(|m| !m.own.is_empty()) && g > 0 {
        labels.push("global+module-stack");
    }
    if !want_sink.is_empty() {
        labels.push("sends-inside-event");
    }
    if expect_err {
        labels.push("tear-down-ends-with-error");
    }
    if was_down.iter().any(|d| *d) {
        labels.push("shutdown-and-restart");
    }
    if case.via_ndl {
        labels.push("network-built-from-NDL-through-a-registry");
    }
    if dead.borrow().iter().any(|d| *d) {
        labels.push("handler-panic-caught-by-the-stereotype");
    }
    let _ = ignored_after_panic;
    if mods.iter().any(|m| burst_of(m, &case.global) > 20) && got.iter().any(|r| r.kind == "send" && r.a >= 4020) {
        labels.push("burst>20-with-ties-and-descending-times");
    }
    if mods.iter().any(|m| m.own_as_block && m.own.len() > g && g > 0) {
        labels.push("module-block-longer-than-global-stack");
    }
    if self_events >= 2 {
        labels.push(">=2-zero-delay-self-messages-from-one-handler");
    }
    if restart_stage_events >= 2 {
        labels.push("restart-replays->=2-stages");
    }
    if ignored_while_down > 0 {
        labels.push("message-while-down");
    }
    Ok((n_max >= 2 && consumed_early && wake_events > 0, labels))
}

impl Prop for C14 {
    const ID: &'static str = "C14";
    type Case = Case;

    fn rule() -> String {
        "proptest: a global stack of 0..4 elements and 0..4 per-module elements (Module::stack, appended one by one or as one block) for 1..2 target modules (created with node()/gate()/connect() or, in a quarter of the cases, from an NDL description through a registry), element kinds pass / rewrite \
         id / consume-if(id % m == r) / also-send / send-on-event-end; events: start-up stages (0..2 per module), injected messages at distinct \
         instants, timer wake-ups of a task, a shutdown requested by the handler with a restart that replays the start-up stages (messages \
         that arrive while the module is down are dropped without any hook call), a handler panic that the module's stereotype declares caught (brackets closed all the same, nothing but tear-down afterwards), tear-down (also ending in an error: at_sim_end returns Err, or a joined task is still pending); \
         handlers optionally forward to a sink, and (in modules that never shut down) emit bursts of up to 47 messages with delays 2,0,1,2,0,1,.. ms and schedule 2..5 zero-delay messages to their own module (events of the same instant, each bracketed, in scheduling order). Oracle: the complete hook/handler log of the target \
         modules must equal the log produced by an independent interpretation of the stack rules (event_start 0..n-1 each once, incoming in that \
         order until consumed, handler iff not consumed and with the rewritten id, event_end n-1..0 each once, module elements after the global \
         ones, brackets contiguous); the sink receives the messages sent inside events by arrival time, in program order among equal arrival times. Non-trivial iff a stack has >= 2 elements \
         AND an element other than the last consumes a message AND a timer wake-up event occurs."
            .into()
    }
    fn assumptions() -> Vec<String> {
        vec![
            "all injected events of one run have distinct timestamps, so the event order itself is not in question (C03)".into(),
            "messages sent during tear-down are not modelled (des documents that no further events are processed)".into(),
        ]
    }
    fn plan(tier: Tier) -> Plan {
        Plan {
            shards: tier.pick(4, 16),
            cases_per_shard: tier.pick(1_500, 30_000),
            watchdog: StdDuration::from_secs(tier.pick(300, 3600)),
        }
    }
    fn strategy(_tier: Tier) -> BoxedStrategy<Case> {
        let elem = prop_oneof![
            2 => Just(Elem::Pass),
            2 => (1u8..4).prop_map(Elem::Rewrite),
            3 => (2u8..4, 0u8..3).prop_map(|(m, r)| Elem::ConsumeIf(m, r)),
            1 => Just(Elem::AlsoSend),
            1 => Just(Elem::SendOnEnd),
        ];
        let m = (
            proptest::collection::vec(elem.clone(), 0..5),
            0u8..3,
            proptest::collection::vec(0u8..20, 0..4),
            proptest::collection::vec((0u8..20, 0u8..12), 0..6),
            any::<bool>(),
            proptest::bool::weighted(0.2),
            proptest::bool::weighted(0.2),
            proptest::option::weighted(0.35, (0u8..4, 0u8..6)),
            any::<bool>(),
            prop_oneof![3 => Just(0u8), 1 => 21u8..48, 1 => 1u8..21],
            proptest::option::weighted(0.2, 0u8..3),
            prop_oneof![3 => Just(0u8), 2 => 2u8..6],
        )
            .prop_map(|(own, stages, wakes, msgs, handler_sends, end_err, pending_join, restart, own_as_block, handler_burst, panic_on, handler_selfs)| ModSpec {
                own,
                stages,
                wakes,
                msgs,
                handler_sends,
                end_err,
                pending_join,
                restart,
                own_as_block,
                handler_burst,
                panic_on,
                handler_selfs,
            });
        (proptest::collection::vec(elem, 0..5), proptest::collection::vec(m, 1..3), proptest::bool::weighted(0.25))
            .prop_map(|(global, mods, via_ndl)| Case { global, mods, via_ndl })
            .boxed()
    }
    fn run(case: &Case) -> Outcome {
        match run_case(case) {
            Ok((nt, labels)) => Outcome::ok(nt, labels),
            Err(f) => Outcome::failed(f),
        }
    }
}
