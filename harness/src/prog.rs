//! Event programs on a raw `Runtime<App>` (C02, C03, C10, C11) and the reference model `RefSim`.
//!
//! A program is a forest of events. Roots are scheduled before the run, every other node is
//! scheduled by the handler of its parent. All absolute times are resolved by the model first,
//! so the oracle knows the timestamp every event must be handled with.

use crate::cq::QParams;
use crate::engine::{catch, idx, Failure};
use crate::{vensure, vfail};
use des::prelude::*;
use des::runtime::RuntimeLimit;
use proptest::prelude::*;
use serde::{Deserialize, Serialize};
use std::collections::{BTreeMap, VecDeque};

// ------------------------------------------------------------------------------------------
// RefSim: the order C03 states, independent of des

#[derive(Default, Debug, Clone)]
pub struct RefSim {
    pub cur: u128,
    seq: u64,
    zero: VecDeque<(u32, u128)>,
    rest: BTreeMap<(u128, u64), u32>,
}

impl RefSim {
    pub fn new() -> Self {
        Self::default()
    }
    pub fn len(&self) -> usize {
        self.zero.len() + self.rest.len()
    }
    pub fn is_empty(&self) -> bool {
        self.len() == 0
    }
    /// Schedules `id` at `time` (>= the time of the most recently dispatched event).
    pub fn schedule(&mut self, id: u32, time: u128) {
        assert!(time >= self.cur, "model: scheduling into the past");
        if time == self.cur {
            self.zero.push_back((id, time));
        } else {
            self.rest.insert((time, self.seq), id);
        }
        self.seq += 1;
    }
    pub fn peek(&self) -> Option<(u32, u128)> {
        self.zero
            .front()
            .copied()
            .or_else(|| self.rest.iter().next().map(|((t, _), id)| (*id, *t)))
    }
    pub fn pop(&mut self) -> Option<(u32, u128)> {
        if let Some(x) = self.zero.pop_front() {
            return Some(x);
        }
        let (&(t, s), &id) = self.rest.iter().next()?;
        self.rest.remove(&(t, s));
        self.cur = t;
        Some((id, t))
    }
    pub fn pending(&self) -> Vec<(u32, u128)> {
        self.zero
            .iter()
            .copied()
            .chain(self.rest.iter().map(|((t, _), id)| (*id, *t)))
            .collect()
    }
}

// ------------------------------------------------------------------------------------------
// program

#[derive(Clone, Debug, Serialize, Deserialize, PartialEq)]
pub enum Delta {
    Zero,
    Ns(u16),
    WidthM1,
    Width,
    WidthP1,
    Widths(u8),
    Year,
    YearP(u8),
    /// the absolute time of an earlier node if that is not in the past, else zero delay
    TieWith(u16),
}

#[derive(Clone, Debug, Serialize, Deserialize, PartialEq)]
pub struct Node {
    /// None: root, scheduled before the run at start + delta. Some(i): scheduled by node idx(i).
    pub parent: Option<u16>,
    pub delta: Delta,
    /// use `add_event_in(delta)` instead of `add_event(now + delta)`
    pub via_in: bool,
    /// additionally attempt `add_event(now - d)` with d > 0 in this node's handler
    pub past: Option<u16>,
}

#[derive(Clone, Debug, Serialize, Deserialize, PartialEq)]
pub struct Program {
    pub params: QParams,
    pub start_ns: u64,
    pub nodes: Vec<Node>,
    /// attempt to schedule an event `d` ns before the start time before the run
    pub pre_past: Option<u32>,
}

pub const STARTS: [u64; 8] = [0, 1, 1_000_000_000, 10_000_000_000, 12_345_678_000_000, 2_500_000, 1_250_000_000, 3_700_000_001];

pub fn delta_strategy(tie_bias: bool) -> impl Strategy<Value = Delta> {
    let (wz, wt) = if tie_bias { (8, 8) } else { (4, 3) };
    prop_oneof![
        wz => Just(Delta::Zero),
        3 => (1u16..2000).prop_map(Delta::Ns),
        1 => Just(Delta::WidthM1),
        2 => Just(Delta::Width),
        1 => Just(Delta::WidthP1),
        2 => (0u8..20).prop_map(Delta::Widths),
        2 => Just(Delta::Year),
        1 => (0u8..3).prop_map(Delta::YearP),
        wt => any::<u16>().prop_map(Delta::TieWith),
    ]
}

pub fn node_strategy(tie_bias: bool, past: bool) -> impl Strategy<Value = Node> {
    (
        proptest::option::weighted(0.75, any::<u16>()),
        delta_strategy(tie_bias),
        any::<bool>(),
        if past {
            proptest::option::weighted(0.15, 1u16..3000).boxed()
        } else {
            Just(None).boxed()
        },
    )
        .prop_map(|(parent, delta, via_in, past)| Node {
            parent,
            delta,
            via_in,
            past,
        })
}

pub fn small_params() -> impl Strategy<Value = QParams> {
    prop_oneof![
        4 => (0usize..6, 0usize..6).prop_map(|(a, b)| QParams {
            n: [1, 2, 3, 5, 8, 16][a],
            t_ns: [1, 2, 7, 1_000, 1_000_000, 2_500_000][b],
        }),
        2 => Just(QParams { n: 1028, t_ns: 2_500_000 }),
        // bucket widths that do not divide a second
        1 => (0usize..3, 0usize..3).prop_map(|(a, b)| QParams { n: [2, 5, 128][a], t_ns: [300_000_000, 7_000_000, 30_100_000][b] }),
        1 => crate::cq::params_strategy(),
    ]
}

pub fn program_strategy(max_nodes: usize, tie_bias: bool, past: bool) -> impl Strategy<Value = Program> {
    (
        small_params(),
        0usize..STARTS.len(),
        proptest::collection::vec(node_strategy(tie_bias, past), 0..max_nodes),
        if past {
            proptest::option::weighted(0.3, 1u32..2_000_000_000).boxed()
        } else {
            Just(None).boxed()
        },
    )
        .prop_map(|(params, s, nodes, pre_past)| Program {
            // the calendar scans from time zero: keep the start within 2*10^5 bucket widths (cost, not semantics)
            start_ns: STARTS[s].min(params.t_ns.saturating_mul(200_000)),
            params,
            nodes,
            pre_past,
        })
}

/// Per-node facts resolved by the model.
#[derive(Clone, Debug)]
pub struct Resolved {
    pub parent: Vec<Option<usize>>,
    pub time: Vec<u128>,
    pub delta: Vec<u128>,
    pub children: Vec<Vec<usize>>,
    pub roots: Vec<usize>,
}

pub fn resolve(p: &Program) -> Resolved {
    let t = p.params.t_ns as u128;
    let year = t * p.params.n as u128;
    let n = p.nodes.len();
    let mut r = Resolved {
        parent: vec![None; n],
        time: vec![0; n],
        delta: vec![0; n],
        children: vec![Vec::new(); n],
        roots: Vec::new(),
    };
    for (i, node) in p.nodes.iter().enumerate() {
        let parent = match node.parent {
            Some(pi) if i > 0 => Some(idx(pi, i)),
            _ => None,
        };
        let base = match parent {
            Some(pi) => r.time[pi],
            None => p.start_ns as u128,
        };
        let d = match node.delta {
            Delta::Zero => 0,
            Delta::Ns(k) => k as u128,
            Delta::WidthM1 => t.saturating_sub(1),
            Delta::Width => t,
            Delta::WidthP1 => t + 1,
            Delta::Widths(w) => t * w as u128,
            Delta::Year => year,
            Delta::YearP(k) => year + k as u128,
            Delta::TieWith(j) => {
                if i == 0 {
                    0
                } else {
                    r.time[idx(j, i)].saturating_sub(base)
                }
            }
        };
        // keep calendar scans finite: at most 2*10^5 bucket widths per hop
        let d = d.min(t * 200_000);
        r.parent[i] = parent;
        r.delta[i] = d;
        r.time[i] = base + d;
        match parent {
            Some(pi) => r.children[pi].push(i),
            None => r.roots.push(i),
        }
    }
    r
}

// ------------------------------------------------------------------------------------------
// execution on the real runtime

#[derive(Debug, Clone, Copy, PartialEq, Eq)]
pub enum Ev {
    Node(u32),
    Ballast(u32),
    External(u32),
}

pub const BALLAST_BASE: u32 = 1_000_000;
pub const EXTERNAL_BASE: u32 = 2_000_000;

impl Ev {
    pub fn id(self) -> u32 {
        match self {
            Ev::Node(i) => i,
            Ev::Ballast(i) => BALLAST_BASE + i,
            Ev::External(i) => EXTERNAL_BASE + i,
        }
    }
}

pub struct App {
    prog: Program,
    res: Resolved,
    pub trace: Vec<(u32, u128)>,
    /// (where, attempted time, accepted?)
    pub past_attempts: Vec<(String, u128, bool)>,
    /// adds at/after the current time that were rejected: (node, time, panic message)
    pub rejected_adds: Vec<(u32, u128, String)>,
}

impl Application for App {
    type EventSet = Ev;
    type Lifecycle = ();
}

fn st(ns: u128) -> SimTime {
    SimTime::from_duration(Duration::new((ns / 1_000_000_000) as u64, (ns % 1_000_000_000) as u32))
}
fn du(ns: u128) -> Duration {
    Duration::new((ns / 1_000_000_000) as u64, (ns % 1_000_000_000) as u32)
}

impl Event<App> for Ev {
    fn handle(self, rt: &mut Runtime<App>) {
        let now = SimTime::now().as_nanos();
        rt.app.trace.push((self.id(), now));
        let Ev::Node(i) = self else { return };
        if i == u32::MAX {
            // an event that was accepted although it lies in the past; the oracle flags it
            return;
        }
        let i = i as usize;
        let children = rt.app.res.children[i].clone();
        for c in children {
            let via_in = rt.app.prog.nodes[c].via_in;
            let d = rt.app.res.delta[c];
            // NB: relative to the clock the handler observes, as user code would do
            let target = now + d;
            let r = catch(|| {
                if via_in {
                    rt.add_event_in(Ev::Node(c as u32), du(d));
                } else {
                    rt.add_event(Ev::Node(c as u32), st(target));
                }
            });
            if let Err((msg, _)) = r {
                rt.app.rejected_adds.push((c as u32, target, msg));
            }
        }
        if let Some(d) = rt.app.prog.nodes[i].past {
            let d = d as u128;
            if now >= d {
                let target = now - d;
                let r = catch(|| rt.add_event(Ev::Node(u32::MAX), st(target)));
                rt.app.past_attempts.push((format!("handler of node {i}"), target, r.is_ok()));
            }
        }
    }
}

#[derive(Clone, Debug, Serialize, Deserialize, PartialEq)]
pub enum Limit {
    /// `RuntimeLimit::None`: never holds (as a leaf of a tree as well)
    Never,
    Count(usize),
    Time(u128),
    And(Box<Limit>, Box<Limit>),
    Or(Box<Limit>, Box<Limit>),
}

impl Limit {
    /// Own evaluator of "the limit stops before the `count`-th event with timestamp `time`".
    pub fn stops(&self, count: usize, time: u128) -> bool {
        match self {
            Limit::Never => false,
            Limit::Count(n) => count > *n,
            Limit::Time(t) => time > *t,
            Limit::And(a, b) => a.stops(count, time) && b.stops(count, time),
            Limit::Or(a, b) => a.stops(count, time) || b.stops(count, time),
        }
    }
    pub fn to_des(&self) -> RuntimeLimit {
        match self {
            Limit::Never => RuntimeLimit::None,
            Limit::Count(n) => RuntimeLimit::EventCount(*n),
            Limit::Time(t) => RuntimeLimit::SimTime(st(*t)),
            Limit::And(a, b) => RuntimeLimit::CombinedAnd(Box::new(a.to_des()), Box::new(b.to_des())),
            Limit::Or(a, b) => RuntimeLimit::CombinedOr(Box::new(a.to_des()), Box::new(b.to_des())),
        }
    }
    pub fn depth(&self) -> usize {
        match self {
            Limit::Never | Limit::Count(_) | Limit::Time(_) => 1,
            Limit::And(a, b) | Limit::Or(a, b) => 1 + a.depth().max(b.depth()),
        }
    }
}

/// One `Builder` call that contributes to the limit.
#[derive(Clone, Debug, Serialize, Deserialize, PartialEq)]
pub enum BuilderCall {
    MaxItr(usize),
    MaxTime(u128),
    Limit(Limit),
}

impl BuilderCall {
    pub fn as_limit(&self) -> Limit {
        match self {
            BuilderCall::MaxItr(n) => Limit::Count(*n),
            BuilderCall::MaxTime(t) => Limit::Time(*t),
            BuilderCall::Limit(l) => l.clone(),
        }
    }
}

#[derive(Clone, Debug, Serialize, Deserialize, PartialEq)]
pub enum Step {
    N(usize),
    Until(u128),
    /// add a fresh event at (reported time + delta) while paused
    AddExternal(u128),
}

#[derive(Default, Clone, Debug)]
pub struct ExecOpts {
    pub params: Option<QParams>,
    pub ballast: usize,
    pub calls: Vec<BuilderCall>,
    pub steps: Option<Vec<Step>>,
}

#[derive(Clone, Debug, Default)]
pub struct StepReport {
    pub dispatched_total: usize,
    pub remaining: usize,
    pub sim_time: u128,
    /// an external add that panicked: (time, message)
    pub add_rejected: Option<(u128, String)>,
}

#[derive(Clone, Debug)]
pub struct ExecResult {
    pub trace: Vec<(u32, u128)>,
    pub past_attempts: Vec<(String, u128, bool)>,
    pub rejected_adds: Vec<(u32, u128, String)>,
    pub end_time: u128,
    pub event_count: usize,
    pub remaining: Vec<(u32, u128)>,
    pub steps: Vec<StepReport>,
    pub ballast_first_time: u128,
}

pub fn execute(p: &Program, opts: &ExecOpts) -> Result<ExecResult, Failure> {
    let res = resolve(p);
    let params = opts.params.clone().unwrap_or_else(|| p.params.clone());
    let mut builder = Builder::seeded(1).quiet().start_time(st(p.start_ns as u128));
    // the BinaryHeap build of des (harness-heap) has no calendar parameters
    #[cfg(not(vcheck_heap_backend))]
    {
        builder = builder.cqueue_options(params.n, du(params.t_ns as u128));
    }
    #[cfg(vcheck_heap_backend)]
    let _ = &params;
    for c in &opts.calls {
        builder = match c {
            BuilderCall::MaxItr(n) => builder.max_itr(*n),
            BuilderCall::MaxTime(t) => builder.max_time(st(*t)),
            BuilderCall::Limit(l) => builder.limit(l.to_des()),
        };
    }
    let app = App {
        prog: p.clone(),
        res: res.clone(),
        trace: Vec::new(),
        past_attempts: Vec::new(),
        rejected_adds: Vec::new(),
    };
    let mut rt = builder.build(app);
    let mut pre_past = Vec::new();
    if let Some(d) = p.pre_past {
        if (p.start_ns as u128) >= d as u128 {
            let target = p.start_ns as u128 - d as u128;
            let r = catch(|| rt.add_event(Ev::Node(u32::MAX), st(target)));
            pre_past.push(("before the run".to_string(), target, r.is_ok()));
        }
    }
    let mut rejected_pre = Vec::new();
    for &i in &res.roots {
        let via_in = p.nodes[i].via_in;
        let r = catch(|| {
            if via_in {
                rt.add_event_in(Ev::Node(i as u32), du(res.delta[i]));
            } else {
                rt.add_event(Ev::Node(i as u32), st(res.time[i]));
            }
        });
        if let Err((msg, _)) = r {
            rejected_pre.push((i as u32, res.time[i], msg));
        }
    }
    let max_time = res.time.iter().copied().max().unwrap_or(p.start_ns as u128);
    let ballast_first_time = max_time + 50_000 * p.params.t_ns as u128;
    for b in 0..opts.ballast {
        rt.add_event(Ev::Ballast(b as u32), st(ballast_first_time + b as u128 * p.params.t_ns as u128));
    }
    let mut steps_out = Vec::new();
    let result = match &opts.steps {
        None => rt.run(),
        Some(steps) => {
            rt.start();
            let mut ext = 0u32;
            for s in steps {
                let mut rep = StepReport::default();
                match s {
                    Step::N(n) => {
                        rt.dispatch_n_events(*n);
                    }
                    Step::Until(t) => {
                        rt.dispatch_events_until(st(*t));
                    }
                    Step::AddExternal(d) => {
                        let target = rt.sim_time().as_nanos() + d;
                        let r = catch(|| rt.add_event(Ev::External(ext), st(target)));
                        if let Err((msg, _)) = r {
                            rep.add_rejected = Some((target, msg));
                        }
                        ext += 1;
                    }
                }
                rep.dispatched_total = rt.num_events_dispatched();
                rep.remaining = rt.num_events_remaining();
                rep.sim_time = rt.sim_time().as_nanos();
                steps_out.push(rep);
            }
            rt.dispatch_all();
            rt.finish()
        }
    };
    let (mut app, end, profiler) = match result {
        Ok(x) => x,
        Err(e) => vfail!("run-returned-error", "run()/finish() returned an error: {e:?}"),
    };
    let mut past_attempts = pre_past;
    past_attempts.append(&mut app.past_attempts);
    let mut rejected_adds = rejected_pre;
    rejected_adds.append(&mut app.rejected_adds);
    Ok(ExecResult {
        trace: app.trace,
        past_attempts,
        rejected_adds,
        end_time: end.as_nanos(),
        event_count: profiler.event_count,
        remaining: profiler.remaining.iter().map(|(e, t)| (e.id(), t.as_nanos())).collect(),
        steps: steps_out,
        ballast_first_time,
    })
}

// ------------------------------------------------------------------------------------------
// model execution

#[derive(Clone, Debug, Default)]
pub struct ModelResult {
    pub trace: Vec<(u32, u128)>,
    pub remaining: Vec<(u32, u128)>,
    pub steps: Vec<(usize, usize, u128)>,
    pub end_time: u128,
    /// number of dispatches at which >= 2 events shared the minimal timestamp
    pub tie_dispatches: usize,
    /// a tie group contained both a same-instant (zero-delay) insertion and an older event
    pub tie_zero_and_older: bool,
    pub zero_delay_children: usize,
    /// a step boundary fell inside a group of equal timestamps
    pub cut_inside_tie: bool,
    /// an external add landed strictly between the reported time and the next pending timestamp
    pub external_between: bool,
    pub truncated: bool,
}

/// Runs the program on RefSim. `calls` compose with Or (as `Builder` documents).
pub fn model(p: &Program, ballast: usize, calls: &[BuilderCall], steps: Option<&[Step]>) -> ModelResult {
    let res = resolve(p);
    let mut sim = RefSim::new();
    let mut out = ModelResult {
        end_time: p.start_ns as u128,
        ..Default::default()
    };
    for &i in &res.roots {
        sim.schedule(i as u32, res.time[i]);
    }
    let max_time = res.time.iter().copied().max().unwrap_or(p.start_ns as u128);
    let ballast_first_time = max_time + 50_000 * p.params.t_ns as u128;
    for b in 0..ballast {
        sim.schedule(BALLAST_BASE + b as u32, ballast_first_time + b as u128 * p.params.t_ns as u128);
    }
    let base_limit: Option<Limit> = calls
        .iter()
        .map(BuilderCall::as_limit)
        .reduce(|a, b| Limit::Or(Box::new(a), Box::new(b)));
    let mut count = 0usize;
    // returns false when stopped by a limit
    let dispatch = |sim: &mut RefSim, out: &mut ModelResult, count: &mut usize, extra: Option<&Limit>| -> bool {
        loop {
            let Some((id, t)) = sim.peek() else { return true };
            let stop = match extra {
                Some(l) => l.stops(*count + 1, t),
                None => base_limit.as_ref().is_some_and(|l| l.stops(*count + 1, t)),
            };
            if stop {
                return false;
            }
            let pend = sim.pending();
            let ties = pend.iter().filter(|(_, pt)| *pt == t).count();
            if ties >= 2 {
                out.tie_dispatches += 1;
                if t == sim.cur && !sim.zero.is_empty() && sim.rest.keys().any(|(rt, _)| *rt == t) {
                    out.tie_zero_and_older = true;
                }
            }
            sim.pop();
            *count += 1;
            out.trace.push((id, t));
            out.end_time = t;
            if (id as usize) < res.children.len() {
                for &c in &res.children[id as usize] {
                    if res.delta[c] == 0 {
                        out.zero_delay_children += 1;
                    }
                    sim.schedule(c as u32, res.time[c]);
                }
            }
        }
    };
    match steps {
        None => {
            let done = dispatch(&mut sim, &mut out, &mut count, None);
            out.truncated = !done;
        }
        Some(steps) => {
            let mut ext = 0u32;
            for s in steps {
                match s {
                    Step::N(n) => {
                        let lim = Limit::Count(count + n);
                        dispatch(&mut sim, &mut out, &mut count, Some(&lim));
                    }
                    Step::Until(t) => {
                        dispatch(&mut sim, &mut out, &mut count, Some(&Limit::Time(*t)));
                    }
                    Step::AddExternal(d) => {
                        let target = out.end_time + d;
                        if let Some((_, next)) = sim.peek() {
                            if target > out.end_time && target < next {
                                out.external_between = true;
                            }
                        }
                        sim.schedule(EXTERNAL_BASE + ext, target);
                        ext += 1;
                    }
                }
                if !matches!(s, Step::AddExternal(_)) {
                    if let Some((_, next)) = sim.peek() {
                        if count > 0 && next == out.end_time {
                            out.cut_inside_tie = true;
                        }
                    }
                }
                out.steps.push((count, sim.len(), out.end_time));
            }
            dispatch(&mut sim, &mut out, &mut count, None);
        }
    }
    out.remaining = sim.pending();
    out
}

pub fn strip_ballast(trace: &[(u32, u128)]) -> Vec<(u32, u128)> {
    trace
        .iter()
        .copied()
        .filter(|(id, _)| !(BALLAST_BASE..EXTERNAL_BASE).contains(id))
        .collect()
}

/// Compares two traces and reports the first difference.
pub fn diff_traces(what: &str, sig: &str, got: &[(u32, u128)], want: &[(u32, u128)]) -> Result<(), Failure> {
    for (k, (g, w)) in got.iter().zip(want.iter()).enumerate() {
        vensure!(
            g == w,
            sig,
            "{what}: dispatch #{k} is event {} at {} ns, expected event {} at {} ns",
            g.0,
            g.1,
            w.0,
            w.1
        );
    }
    vensure!(
        got.len() == want.len(),
        sig,
        "{what}: {} events dispatched, expected {}",
        got.len(),
        want.len()
    );
    Ok(())
}
