//! C09 – a shut-down module is inert until restart and restarts cleanly on time.

use crate::engine::*;
use crate::net::{self, du, st, Rec};
use crate::vensure;
use des::net::channel::{ChannelDropBehaviour, ChannelMetrics};
use des::prelude::*;
use des::time::sleep;
use proptest::prelude::*;
use serde::{Deserialize, Serialize};
use std::time::Duration as StdDuration;

#[derive(Clone, Debug, Serialize, Deserialize, PartialEq)]
pub enum Cmd {
    Nop,
    Shutdown,
    /// shut down and restart after this many milliseconds (0 = same instant)
    Restart(u16),
}

#[derive(Clone, Debug, Serialize, Deserialize)]
pub struct Case {
    /// tick period of the target's timer task in ms (>= 1) and ticks per incarnation
    pub period_ms: u8,
    pub max_ticks: u8,
    /// messages injected directly at the target: (time ms, command)
    pub direct: Vec<(u16, Cmd)>,
    /// messages sent by the driver over a latency channel: (send time ms, command)
    pub via_driver: Vec<(u16, Cmd)>,
    pub latency_ms: u8,
    /// messages the driver sends to the bystander through a transit gate owned by the target: send time ms
    pub transit: Vec<u16>,
    /// shutdown requests issued by the timer task: (incarnation, tick number, command)
    pub tick_cmds: Vec<(u8, u8, Cmd)>,
    /// the timer task is created with tokio::task::spawn_local (it lives in the module's LocalSet, not in the
    /// runtime's task list) instead of tokio::spawn
    #[serde(default)]
    pub local_ticker: bool,
    /// shutdown requests issued from the last start-up stage of a restart: (k, command) applies to incarnation 2 + k % 3
    #[serde(default)]
    pub restart_cmds: Vec<(u8, Cmd)>,
    /// a handler that requests a restart in d first schedules a self-message for exactly that instant: it was
    /// scheduled before the restart, so it arrives first (events of one instant keep their order) and is dropped
    #[serde(default)]
    pub tie: bool,
}

pub struct C09;

const MS: u128 = 1_000_000;
const US: u128 = 1_000;

fn apply(cmd: &Cmd) {
    match cmd {
        Cmd::Nop => {}
        Cmd::Shutdown => current().shutdown(),
        Cmd::Restart(d) => current().shutdow_and_restart_in(du(*d as u128 * MS)),
    }
}

struct Target {
    inc: i64,
    period: u128,
    max_ticks: u8,
    /// command per message id
    cmds: Vec<Cmd>,
    tick_cmds: Vec<(u8, u8, Cmd)>,
    local_ticker: bool,
    restart_cmds: Vec<(u8, Cmd)>,
    tie: bool,
}

fn restart_cmd(cmds: &[(u8, Cmd)], inc: i64) -> Option<Cmd> {
    cmds.iter().find(|(k, _)| 2 + (*k % 3) as i64 == inc).map(|(_, c)| c.clone())
}

/// A processing element of the target that only records that an event of the module is being processed.
struct Watch;
impl des::net::processing::ProcessingElement for Watch {
    fn event_start(&mut self) {
        net::log("pe", 0, 0);
    }
}

impl Module for Target {
    fn stack(&self, mut stack: des::net::processing::ProcessingStack) -> des::net::processing::ProcessingStack {
        stack.append(Watch);
        stack
    }
    fn num_sim_start_stages(&self) -> usize {
        2
    }
    fn at_sim_start(&mut self, stage: usize) {
        if stage == 0 {
            self.inc += 1;
            let (inc, period, max) = (self.inc, self.period, self.max_ticks);
            let cmds = self.tick_cmds.clone();
            let ticker = async move {
                for k in 1..=max {
                    sleep(du(period)).await;
                    net::log("tick", inc, k as i64);
                    if let Some((_, _, c)) = cmds.iter().find(|(i, t, _)| *i as i64 == inc && *t == k) {
                        apply(c);
                    }
                }
            };
            if self.local_ticker {
                current().try_join(tokio::task::spawn_local(ticker));
            } else {
                current().try_join(tokio::spawn(ticker));
            }
        }
        net::log("start", self.inc, stage as i64);
        if stage == 1 {
            // a (re)started module can use its gates right away
            send(Message::default().id(60_000 + self.inc as u16), "hello");
            // a restarted module may ask for its next shutdown right away
            if let Some(c) = restart_cmd(&self.restart_cmds, self.inc) {
                apply(&c);
            }
        }
    }
    fn handle_message(&mut self, msg: Message) {
        let id = msg.header().id as usize;
        net::log("msg", self.inc, id as i64);
        if id >= 60_000 {
            // a self-message of an earlier incarnation: never expected to arrive
            return;
        }
        if let (true, Cmd::Restart(d)) = (self.tie, &self.cmds[id]) {
            schedule_in(Message::default().id(62_000 + id as u16), du(*d as u128 * MS));
        }
        apply(&self.cmds[id]);
        if self.cmds[id] != Cmd::Nop {
            // the shutdown takes effect at the end of this event: a farewell sent after the request still leaves
            send(Message::default().id(61_000 + id as u16), "hello");
        }
    }
    fn reset(&mut self) {
        net::log("reset", self.inc, 0);
    }
    fn at_sim_end(&mut self) -> Result<(), RuntimeError> {
        // tear-down is delivered to a shut-down module as well (documented); marked so that it is not mistaken for activity
        net::log("end", self.inc, 0);
        Ok(())
    }
}

struct Driver {
    /// (time, kind 0 = to target, 1 = via the target's transit gate; message id)
    sends: Vec<(u128, u8, u16)>,
}

impl Module for Driver {
    fn at_sim_start(&mut self, _: usize) {
        for (k, s) in self.sends.iter().enumerate() {
            schedule_at(Message::default().kind(7).id(k as u16), st(s.0));
        }
    }
    fn handle_message(&mut self, msg: Message) {
        let (_, kind, id) = self.sends[msg.header().id as usize];
        let active = des::net::globals().get(&ObjectPath::from("t")).map_or(-1, |m| m.is_active() as i64);
        net::log("probe-active", id as i64, active);
        send(Message::default().id(id), if kind == 0 { "to_t" } else { "to_b" });
    }
}

struct Bystander;
impl Module for Bystander {
    fn handle_message(&mut self, msg: Message) {
        net::log("brecv", msg.header().id as i64, 0);
    }
}

#[derive(Debug, Clone)]
enum Ev {
    Tick(i64, u8),
    Msg(usize),
    Transit(usize),
    Probe(usize),
    Restart,
    /// the self-message scheduled for the restart instant by the handler of this message id
    Tie(usize),
}

pub fn run_case(case: &Case) -> Result<(bool, Vec<&'static str>), Failure> {
    let period = (case.period_ms.max(1)) as u128 * MS;
    let max_ticks = case.max_ticks % 8;
    let lat = case.latency_ms as u128 * MS;
    // message table: unique microsecond offsets keep every two events of the run at distinct instants
    let mut cmds: Vec<Cmd> = Vec::new();
    let mut direct: Vec<(u128, usize)> = Vec::new();
    let mut sends: Vec<(u128, u8, u16)> = Vec::new();
    for (t, c) in &case.direct {
        let id = cmds.len();
        cmds.push(c.clone());
        direct.push((*t as u128 * MS + (id as u128 + 1) * 7 * US, id));
    }
    for (t, c) in &case.via_driver {
        let id = cmds.len();
        cmds.push(c.clone());
        sends.push((*t as u128 * MS + (id as u128 + 1) * 7 * US, 0, id as u16));
    }
    for t in &case.transit {
        let id = cmds.len();
        cmds.push(Cmd::Nop);
        sends.push((*t as u128 * MS + (id as u128 + 1) * 7 * US, 1, id as u16));
    }

    net::log_clear();
    let mut sim = Sim::new(());
    sim.node(
        "t",
        Target {
            inc: 0,
            period,
            max_ticks,
            cmds: cmds.clone(),
            tick_cmds: case.tick_cmds.clone(),
            local_ticker: case.local_ticker,
            restart_cmds: case.restart_cmds.clone(),
            tie: case.tie,
        },
    );
    sim.node("d", Driver { sends: sends.clone() });
    sim.node("b", Bystander);
    let chan = Channel::new(ChannelMetrics::new(0, du(lat), Duration::ZERO, ChannelDropBehaviour::Queue(None)));
    sim.gate("d", "to_t").connect(sim.gate("t", "in"), Some(chan));
    let chan2 = Channel::new(ChannelMetrics::new(0, du(lat), Duration::ZERO, ChannelDropBehaviour::Queue(None)));
    let through = sim.gate("t", "through");
    sim.gate("d", "to_b").connect(through.clone(), Some(chan2));
    through.connect(sim.gate("b", "in"), None);
    sim.gate("t", "hello").connect(sim.gate("b", "hello_in"), None);
    let target = sim.get(&ObjectPath::from("t")).unwrap();
    let mut rt = Builder::seeded(17).quiet().max_itr(20_000).build(sim.freeze());
    for (t, id) in &direct {
        rt.handle_message_on(target.clone(), Message::default().id(*id as u16), st(*t));
    }
    drop(target);
    let res = rt.run();
    let log = net::log_take();
    let ok = res.is_ok();
    let budget_hit = res.as_ref().map_or(false, |r| r.2.event_count >= 20_000);
    drop(res);
    vensure!(ok, "run-returned-error", "run() returned an error");
    vensure!(!budget_hit, "event-budget-exhausted", "the run consumed 20000 events (livelock)");

    // ---- model ----
    let mut agenda: Vec<(u128, u32, Ev)> = Vec::new(); // (time, seq, event)
    let mut seq = 0u32;
    let mut push = |agenda: &mut Vec<(u128, u32, Ev)>, t: u128, e: Ev| {
        agenda.push((t, seq, e));
        seq += 1;
    };
    for (t, id) in &direct {
        push(&mut agenda, *t, Ev::Msg(*id));
    }
    for (k, (t, kind, id)) in sends.iter().enumerate() {
        push(&mut agenda, *t, Ev::Probe(k));
        if *kind == 0 {
            push(&mut agenda, *t + lat, Ev::Msg(*id as usize));
        } else {
            push(&mut agenda, *t + lat, Ev::Transit(*id as usize));
        }
    }
    let mut want_t: Vec<Rec> = Vec::new();
    let mut want_b: Vec<Rec> = Vec::new();
    let mut want_d: Vec<Rec> = Vec::new();
    let r = |path: &str, kind: &str, a: i64, b: i64, now: u128| Rec {
        path: path.into(),
        kind: kind.into(),
        now,
        a,
        b,
    };
    let mut active = true;
    let mut inc: i64 = 1;
    want_t.push(r("t", "start", 1, 0, 0));
    want_t.push(r("t", "start", 1, 1, 0));
    want_b.push(r("b", "brecv", 60_001, 0, 0));
    if max_ticks >= 1 {
        push(&mut agenda, period, Ev::Tick(1, 1));
    }
    let mut down_msgs = 0;
    let mut tie_dropped = false;
    let mut old_timer_after_restart = false;
    let mut cycles = 0;
    let mut shutdown_from_restart = false;
    let mut last_shutdown: Option<(u128, i64, u128)> = None; // (time, incarnation, next tick due)
    // (shutdown instant, restart instant or end of time): the module is down strictly in between
    let mut down: Vec<(u128, u128)> = Vec::new();
    loop {
        agenda.sort_by_key(|x| (x.0, x.1));
        if agenda.is_empty() {
            break;
        }
        let (now, _, ev) = agenda.remove(0);
        let mut request: Option<Cmd> = None;
        match ev {
            Ev::Tick(i, k) => {
                if active && i == inc {
                    want_t.push(r("t", "tick", i, k as i64, now));
                    if let Some((_, _, c)) = case.tick_cmds.iter().find(|(ci, ct, _)| *ci as i64 == i && *ct == k) {
                        request = Some(c.clone());
                    }
                    if k < max_ticks {
                        push(&mut agenda, now + period, Ev::Tick(i, k + 1));
                    }
                } else if let Some((_, li, due)) = last_shutdown {
                    if i == li && active && now >= due {
                        old_timer_after_restart = true;
                    }
                }
            }
            Ev::Msg(id) => {
                if active {
                    want_t.push(r("t", "msg", inc, id as i64, now));
                    request = Some(cmds[id].clone());
                    if let (true, Cmd::Restart(d)) = (case.tie, &cmds[id]) {
                        push(&mut agenda, now + *d as u128 * MS, Ev::Tie(id));
                    }
                    if cmds[id] != Cmd::Nop {
                        want_b.push(r("b", "brecv", 61_000 + id as i64, 0, now));
                    }
                } else {
                    down_msgs += 1;
                }
            }
            Ev::Transit(id) => {
                if active {
                    want_b.push(r("b", "brecv", id as i64, 0, now));
                } else {
                    down_msgs += 1;
                }
            }
            Ev::Tie(id) => {
                if active {
                    want_t.push(r("t", "msg", inc, 62_000 + id as i64, now));
                } else {
                    down_msgs += 1;
                    tie_dropped = true;
                }
            }
            Ev::Probe(k) => want_d.push(r("d", "probe-active", sends[k].2 as i64, active as i64, now)),
            Ev::Restart => {
                active = true;
                inc += 1;
                cycles += 1;
                want_t.push(r("t", "start", inc, 0, now));
                want_t.push(r("t", "start", inc, 1, now));
                want_b.push(r("b", "brecv", 60_000 + inc, 0, now));
                if max_ticks >= 1 {
                    push(&mut agenda, now + period, Ev::Tick(inc, 1));
                }
                if let Some(c) = restart_cmd(&case.restart_cmds, inc) {
                    if c != Cmd::Nop {
                        shutdown_from_restart = true;
                    }
                    request = Some(c);
                }
            }
        }
        match request {
            None | Some(Cmd::Nop) => {}
            Some(Cmd::Shutdown) => {
                active = false;
                want_t.push(r("t", "reset", inc, 0, now));
                last_shutdown = Some((now, inc, now));
                down.push((now, u128::MAX));
            }
            Some(Cmd::Restart(d)) => {
                active = false;
                want_t.push(r("t", "reset", inc, 0, now));
                last_shutdown = Some((now, inc, now + d as u128 * MS));
                down.push((now, now + d as u128 * MS));
                push(&mut agenda, now + d as u128 * MS, Ev::Restart);
            }
        }
    }
    // nothing of the module is processed while it is down: not even its processing elements see an event
    let t_log: Vec<&Rec> = log.iter().filter(|x| x.path == "t").collect();
    for (k, x) in t_log.iter().enumerate().filter(|(_, x)| x.kind == "pe") {
        if t_log.get(k + 1).is_some_and(|n| n.kind == "end") {
            continue;
        }
        if let Some((a, b)) = down.iter().find(|(a, b)| x.now > *a && x.now < *b) {
            return Err(Failure::new(
                "activity-of-shut-down-module-or-lost-event",
                format!(
                    "a processing element of the target saw an event at {} ns although the module is down from {a} ns to {} ns\ncase: {:?}",
                    x.now,
                    if *b == u128::MAX { "the end".to_string() } else { format!("{b} ns") },
                    case
                ),
            ));
        }
    }
    let cmp = |what: &str, path: &str, want: &[Rec]| -> Result<(), Failure> {
        let got: Vec<Rec> = log.iter().filter(|x| x.path == path && x.kind != "pe" && x.kind != "end").cloned().collect();
        for (k, (g, w)) in got.iter().zip(want.iter()).enumerate() {
            if g != w {
                let sig = if path == "t" {
                    if g.kind == "start" || w.kind == "start" {
                        "restart-mismatch"
                    } else if g.now > w.now || (g.kind != w.kind) {
                        "activity-of-shut-down-module-or-lost-event"
                    } else {
                        "target-log-mismatch"
                    }
                } else {
                    "unaffected-module-disturbed"
                };
                return Err(Failure::new(
                    sig,
                    format!(
                        "{what}: entry #{k} is {} but the incarnation model gives {}\n got: {}\nwant: {}\ncase: {:?}",
                        net::fmt_recs(std::slice::from_ref(g)),
                        net::fmt_recs(std::slice::from_ref(w)),
                        net::fmt_recs(&got[k.saturating_sub(4)..(k + 3).min(got.len())]),
                        net::fmt_recs(&want[k.saturating_sub(4)..(k + 3).min(want.len())]),
                        case
                    ),
                ));
            }
        }
        vensure!(
            got.len() == want.len(),
            if got.len() > want.len() { "activity-of-shut-down-module-or-lost-event" } else { "event-lost" },
            "{what}: {} log entries, the model gives {}; tail got: {} | want: {}\ncase: {:?}",
            got.len(),
            want.len(),
            net::fmt_recs(&got[got.len().saturating_sub(4)..]),
            net::fmt_recs(&want[want.len().saturating_sub(4)..]),
            case
        );
        Ok(())
    };
    cmp("target module", "t", &want_t)?;
    cmp("bystander", "b", &want_b)?;
    cmp("driver's view of is_active()", "d", &want_d)?;

    let mut labels = Vec::new();
    if down_msgs > 0 {
        labels.push("message-arrives-while-down");
    }
    if old_timer_after_restart {
        labels.push("old-incarnation-timer-due-after-restart");
    }
    if cycles >= 2 {
        labels.push(">=2-restart-cycles");
    }
    if cycles >= 1 {
        labels.push("restart");
    }
    if case.tick_cmds.iter().any(|(_, _, c)| *c != Cmd::Nop) {
        labels.push("shutdown-requested-by-task");
    }
    if shutdown_from_restart {
        labels.push("shutdown-requested-in-the-restart-event");
    }
    if tie_dropped {
        labels.push("self-message-scheduled-for-the-restart-instant-before-the-request");
    }
    if case.local_ticker && max_ticks > 0 {
        labels.push("timer-task-in-the-local-set");
    }
    Ok((down_msgs > 0 && old_timer_after_restart && cycles >= 2, labels))
}

impl Prop for C09 {
    const LEVEL: &'static str = "fault_enumeration";
    const ID: &'static str = "C09";
    type Case = Case;

    fn rule() -> String {
        "generated fault placements: a target module (2 start-up stages, a timer task - created with tokio::spawn or spawn_local - ticking every 1..6 ms up to 7 times per incarnation), a \
         driver and a bystander (greeted by the target through a gate from its last start-up stage in every incarnation, and sent a farewell by every handler right after it requested a shutdown; in 40% of the cases a handler that requests a restart first schedules a self-message for exactly the restart instant, which must be dropped); messages injected directly and sent by the driver over a latency channel (in transit at shutdown), messages to the \
         bystander routed through a transit gate owned by the target; shutdown / shutdown-and-restart(0..40 ms) commands attached to generated \
         messages, to generated (incarnation, tick) points of the task and to the last start-up stage of a restart, up to several cycles. All instants are distinct by construction \
         (microsecond offsets). Oracle: an incarnation model yields the exact log (kind, incarnation, time) of the target (start stages once each at \
         the restart time, ticks, handled messages, reset once per shutdown, nothing in down intervals or from older incarnations), of the \
         bystander (messages through the target's gate dropped exactly while it is down), no event seen by a processing element of the target strictly inside a down interval, and of is_active() as seen by the driver. Non-trivial iff \
         a message arrives during a down interval AND a timer of the old incarnation was due after the restart AND >= 2 restart cycles occur."
            .into()
    }
    fn assumptions() -> Vec<String> {
        vec![
            "apart from the self-message a handler schedules for the restart instant before it requests the restart (which, being scheduled first, arrives first and is dropped), no two events of a run share a timestamp".into(),
            "shutdown is never requested from a start-up stage of the initial start, nor from a non-final stage".into(),
        ]
    }
    fn plan(tier: Tier) -> Plan {
        Plan {
            shards: tier.pick(4, 16),
            cases_per_shard: tier.pick(1_500, 30_000),
            watchdog: StdDuration::from_secs(tier.pick(300, 3600)),
        }
    }
    fn strategy(tier: Tier) -> BoxedStrategy<Case> {
        let cmd = prop_oneof![
            4 => Just(Cmd::Nop),
            1 => Just(Cmd::Shutdown),
            4 => prop_oneof![Just(0u16), 1u16..8, 8u16..40].prop_map(Cmd::Restart),
        ];
        let hot = prop_oneof![1 => Just(Cmd::Shutdown), 6 => prop_oneof![Just(0u16), 1u16..8, 8u16..40].prop_map(Cmd::Restart)];
        let hot2 = hot.clone();
        let n = tier.pick(8, 16);
        (
            1u8..7,
            0u8..8,
            proptest::collection::vec((0u16..80, cmd.clone()), 0..n),
            proptest::collection::vec((0u16..80, cmd), 0..n),
            0u8..12,
            proptest::collection::vec(0u16..80, 0..n),
            proptest::collection::vec((1u8..5, 1u8..8, hot), 0..3),
            proptest::bool::weighted(0.3),
            proptest::collection::vec((0u8..3, hot2), 0..3),
            proptest::bool::weighted(0.4),
        )
            .prop_map(|(period_ms, max_ticks, direct, via_driver, latency_ms, transit, tick_cmds, local_ticker, restart_cmds, tie)| Case {
                period_ms,
                max_ticks,
                direct,
                via_driver,
                latency_ms,
                transit,
                tick_cmds,
                local_ticker,
                restart_cmds,
                tie,
            })
            .boxed()
    }
    fn run(case: &Case) -> Outcome {
        match run_case(case) {
            Ok((nt, labels)) => Outcome::ok(nt, labels),
            Err(f) => Outcome::failed(f),
        }
    }
}
