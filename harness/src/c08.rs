//! C08 – a message sent into a gate chain reaches the module at the far end.

use crate::engine::*;
use crate::net::{self, du, Rec};
use crate::{vensure, vfail};
use des::net::channel::{ChannelDropBehaviour, ChannelMetrics, ChannelProbe};
use des::net::gate::GateKind;
use des::prelude::*;
use proptest::prelude::*;
use serde::{Deserialize, Serialize};
use std::time::Duration as StdDuration;

#[derive(Clone, Debug, Serialize, Deserialize, PartialEq)]
pub enum Ch {
    None,
    /// latency in ns
    Latency(u32),
    /// bitrate (bit/s), latency in ns
    Rate(u32, u32),
}

#[derive(Clone, Debug, Serialize, Deserialize)]
pub struct GateSpec {
    /// owner module (index); endpoints and transit gates may share modules
    pub owner: u16,
    /// cluster size 1..=3 and position inside the cluster
    pub size: u8,
    pub pos: u8,
}

#[derive(Clone, Debug, Serialize, Deserialize)]
pub struct ConnectCall {
    /// which hop (index into the hop list) this call builds
    pub hop: u16,
    /// call b.connect(a) instead of a.connect(b)
    pub flipped: bool,
    pub ch: Ch,
}

#[derive(Clone, Debug, Serialize, Deserialize)]
pub struct SendSpec {
    pub from_far_end: bool,
    /// None: send(); Some(d): send_in(d ns)
    pub delay: Option<u32>,
    pub body: u16,
    /// start at the same instant as the previous send (only honoured if that one goes the other way: the two
    /// directions of a hop have independent channels, so opposite traffic must not interfere)
    #[serde(default)]
    pub with_prev: bool,
    /// the receiver sends the very same Message object back into the chain; the echo must arrive at the original
    /// sender with the echoing module recorded as sender
    #[serde(default)]
    pub echo: bool,
    /// a second message (id + 500) of the same size follows on the same gate at the same instant: on a hop with a
    /// bitrate it finds the channel busy and waits in the channel's queue (all channels of such a case queue without
    /// bound). Only honoured for a send that has its time slot for itself and is not echoed.
    #[serde(default)]
    pub follower: bool,
}

#[derive(Clone, Debug, Serialize, Deserialize)]
pub struct Case {
    pub modules: u8,
    /// k+1 gates for k hops
    pub gates: Vec<GateSpec>,
    /// priorities deciding the order of the first connect call of every hop
    pub order: Vec<u16>,
    /// orientation + channel of the first connect call of every hop
    pub first: Vec<(bool, Ch)>,
    /// additional (repeated) connect calls, executed after all hops exist or interleaved (by `at`)
    pub repeats: Vec<(u16, ConnectCall)>,
    pub sends: Vec<SendSpec>,
    /// attempt a third connection on this transit gate
    pub third: Option<u16>,
    /// a second, small simulation: a module requests a delayed send on a gate that is still unconnected and connects
    /// it (directly or through a relay gate, in either orientation) before the message departs; (delay us, flipped, relay)
    #[serde(default)]
    pub late_connect: Option<(u16, bool, bool)>,
    /// two more small simulations over a single hop: (a) a module that shut itself down sends from the start-up
    /// stage of its restart; (b) a byte-bounded queueing channel that overflowed once still carries a later burst
    /// that fits. The value is the body size used in (b).
    #[serde(default)]
    pub restart_and_bounded_queue: Option<u8>,
}

pub struct C08;

struct Node {
    /// (trigger id, gate, delay, body bytes, time slot, with follower)
    sends: Vec<(u16, GateRef, Option<u32>, u16, u16, bool)>,
    /// ids of messages this module echoes back on the given gate
    echoes: Vec<(u16, GateRef)>,
    /// distance between two time slots (ns): long enough for a message and its echo to leave the chain
    spacing: u128,
}

impl Module for Node {
    fn at_sim_start(&mut self, _: usize) {
        for (id, _, _, _, slot, _) in &self.sends {
            schedule_in(Message::default().kind(1).id(*id), du(self.spacing * (*slot as u128 + 1)));
        }
    }
    fn handle_message(&mut self, msg: Message) {
        if msg.header().kind == 1 {
            let id = msg.header().id;
            let (_, gate, delay, body, _, follower) = self.sends.iter().find(|s| s.0 == id).expect("trigger").clone();
            for id in [Some(id), follower.then_some(id + 500)].into_iter().flatten() {
                let out = Message::default().kind(2).id(id).with_content(vec![0u8; body as usize]);
                net::log("sent", id as i64, 0);
                match delay {
                    None => send(out, gate.clone()),
                    Some(d) => send_in(out, gate.clone(), du(d as u128)),
                }
            }
        } else {
            let h = msg.header();
            let gate = h.last_gate.as_ref().map(|g| g.path().as_str().to_string()).unwrap_or_default();
            let kind = if h.kind == 3 { "echo" } else { "recv" };
            net::log(&format!("{kind} via {gate}"), h.id as i64, ((h.sender_module_id.0 as i64) << 16) | h.receiver_module_id.0 as i64);
            if h.kind == 2 {
                if let Some((_, g)) = self.echoes.iter().find(|e| e.0 == h.id) {
                    // relay the received object itself (not a fresh message)
                    let g = g.clone();
                    send(msg.kind(3), g);
                }
            }
        }
    }
}

struct Probe {
    hop: i64,
    dir: i64,
}
impl ChannelProbe for Probe {
    fn on_message_transmit(&mut self, _: &ChannelMetrics, msg: &Message) {
        net::log_as("<probe>", &format!("probe{}", msg.header().id), self.hop, self.dir);
    }
}

fn metrics(ch: &Ch, queue: bool) -> Option<ChannelMetrics> {
    let drop = if queue { ChannelDropBehaviour::Queue(None) } else { ChannelDropBehaviour::Drop };
    match ch {
        Ch::None => None,
        Ch::Latency(l) => Some(ChannelMetrics::new(0, du(*l as u128), Duration::ZERO, drop)),
        Ch::Rate(r, l) => Some(ChannelMetrics::new((*r).max(1) as usize, du(*l as u128), Duration::ZERO, drop)),
    }
}

fn hop_delay(ch: &Ch, len_bytes: usize) -> u128 {
    match ch {
        Ch::None => 0,
        Ch::Latency(l) => *l as u128,
        Ch::Rate(r, l) => {
            let tau = std::time::Duration::from_secs_f64((len_bytes * 8) as f64 / (*r).max(1) as f64);
            tau.as_nanos() + *l as u128
        }
    }
}

fn walk(g: &GateRef) -> Option<Vec<String>> {
    Some(g.path_iter()?.take(64).map(|c| c.endpoint.path().as_str().to_string()).collect())
}

struct LateSender {
    delay_us: u16,
    flipped: bool,
    relay: bool,
}
impl Module for LateSender {
    fn at_sim_start(&mut self, _: usize) {
        let me = current().gate("out", 0).expect("own gate");
        // the send is requested first, the chain is built afterwards (still long before the departure)
        send_in(Message::default().kind(2).id(7), me.clone(), du(self.delay_us as u128 * 1_000 + 1_000));
        let g = des::net::globals();
        let far = g.get(&ObjectPath::from("late_b")).expect("peer").gate("in", 0).expect("peer gate");
        let hops: Vec<(GateRef, GateRef)> = if self.relay {
            let mid = g.get(&ObjectPath::from("late_r")).expect("relay").gate("mid", 0).expect("relay gate");
            vec![(me.clone(), mid.clone()), (mid, far)]
        } else {
            vec![(me, far)]
        };
        for (a, b) in hops {
            if self.flipped {
                b.connect(a, None);
            } else {
                a.connect(b, None);
            }
        }
    }
    fn handle_message(&mut self, msg: Message) {
        net::log("late-recv-at-sender", msg.header().id as i64, 0);
    }
}
struct LatePeer;
impl Module for LatePeer {
    fn handle_message(&mut self, msg: Message) {
        let h = msg.header();
        let gate = h.last_gate.as_ref().map(|g| g.path().as_str().to_string()).unwrap_or_default();
        net::log(&format!("late-recv via {gate}"), h.id as i64, 0);
    }
}

struct Phoenix {
    inc: u8,
}
impl Module for Phoenix {
    fn at_sim_start(&mut self, _: usize) {
        self.inc += 1;
        if self.inc == 1 {
            schedule_in(Message::default().kind(1), Duration::from_millis(1));
        } else {
            // a restarted module can use its gates right away
            send(Message::default().kind(2).id(9), "out");
        }
    }
    fn handle_message(&mut self, msg: Message) {
        if msg.header().kind == 1 {
            current().shutdow_and_restart_in(Duration::from_millis(2));
        }
    }
}

struct Burster {
    body: usize,
}
impl Module for Burster {
    fn at_sim_start(&mut self, _: usize) {
        schedule_in(Message::default().kind(1).id(0), Duration::ZERO);
        schedule_in(Message::default().kind(1).id(10), Duration::from_secs(100));
    }
    fn handle_message(&mut self, msg: Message) {
        let base = msg.header().id;
        // the first burst overruns the queue by one message, the second one fits
        let n = if base == 0 { 4 } else { 3 };
        for k in 1..=n {
            send(Message::default().kind(2).id(base + k).with_content(vec![0u8; self.body]), "out");
        }
    }
}

/// (a) send from the start-up stage of a restart, (b) bounded queue after an overflow.
fn restart_and_bounded_queue_scenario(body: u8) -> Result<(), Failure> {
    // (a)
    net::log_clear();
    let mut sim = Sim::new(());
    sim.node("late_a", Phoenix { inc: 0 });
    sim.node("late_b", LatePeer);
    sim.gate("late_a", "out").connect(sim.gate("late_b", "in"), None);
    let rt = Builder::seeded(3).quiet().max_itr(1_000).build(sim.freeze());
    let res = rt.run();
    let log = net::log_take();
    let ok = res.is_ok();
    drop(res);
    vensure!(ok, "run-returned-error", "restart-send scenario: run() returned an error");
    let arrivals: Vec<(String, String, u128, i64)> = log.iter().filter(|r| r.kind.starts_with("late-recv")).map(|r| (r.path.clone(), r.kind.clone(), r.now, r.a)).collect();
    vensure!(
        arrivals == vec![("late_b".to_string(), "late-recv via late_b.in".to_string(), 3_000_000, 9)],
        if arrivals.is_empty() { "message-lost" } else { "delivered-to-wrong-module" },
        "a module that shut down at 1 ms and restarted at 3 ms sent message 9 from the start-up stage of its restart; deliveries: {arrivals:?}, expected once at late_b via late_b.in at 3 ms"
    );
    // (b)
    net::log_clear();
    let len = 64 + body as usize;
    let mut sim = Sim::new(());
    sim.node("late_a", Burster { body: body as usize });
    sim.node("late_b", LatePeer);
    let ch = Channel::new(ChannelMetrics::new(8_000, Duration::ZERO, Duration::ZERO, ChannelDropBehaviour::Queue(Some(2 * len))));
    sim.gate("late_a", "out").connect(sim.gate("late_b", "in"), Some(ch));
    let rt = Builder::seeded(3).quiet().max_itr(1_000).build(sim.freeze());
    let res = rt.run();
    let log = net::log_take();
    let ok = res.is_ok();
    drop(res);
    vensure!(ok, "run-returned-error", "bounded-queue scenario: run() returned an error");
    let mut got: Vec<i64> = log.iter().filter(|r| r.kind.starts_with("late-recv") && r.path == "late_b").map(|r| r.a).collect();
    got.retain(|id| *id != 4); // whether the overrunning message is dropped is C07's subject
    vensure!(
        got == vec![1, 2, 3, 11, 12, 13],
        if got.len() < 6 { "message-lost" } else { "message-duplicated" },
        "queueing channel with a byte limit of two messages ({len} bytes each): a burst of 4 (one more than fits) and, 100 s later, a burst of 3 (which fits); deliveries besides #4: {got:?}, expected [1, 2, 3, 11, 12, 13]"
    );
    Ok(())
}

/// The delayed send whose chain is completed between the request and the departure.
fn late_connect_scenario(delay_us: u16, flipped: bool, relay: bool) -> Result<(), Failure> {
    net::log_clear();
    let mut sim = Sim::new(());
    sim.node("late_a", LateSender { delay_us, flipped, relay });
    sim.node("late_r", LatePeer);
    sim.node("late_b", LatePeer);
    let _ = sim.gate("late_a", "out");
    let _ = sim.gate("late_r", "mid");
    let _ = sim.gate("late_b", "in");
    let rt = Builder::seeded(3).quiet().max_itr(1_000).build(sim.freeze());
    let res = rt.run();
    let log = net::log_take();
    let ok = res.is_ok();
    drop(res);
    vensure!(ok, "run-returned-error", "late-connect scenario: run() returned an error");
    let want_t = delay_us as u128 * 1_000 + 1_000;
    let arrivals: Vec<&Rec> = log.iter().filter(|r| r.kind.starts_with("late-recv")).collect();
    vensure!(
        arrivals.len() == 1 && arrivals[0].path == "late_b" && arrivals[0].now == want_t && arrivals[0].kind == "late-recv via late_b.in",
        if arrivals.is_empty() { "message-lost" } else { "delivered-to-wrong-module" },
        "a send_in requested on a still unconnected gate, with the chain (relay: {relay}, flipped: {flipped}) connected before the departure at {want_t} ns, was delivered as {:?}; expected once at late_b via late_b.in at {want_t} ns",
        arrivals.iter().map(|r| (r.path.clone(), r.kind.clone(), r.now)).collect::<Vec<_>>()
    );
    Ok(())
}

pub fn run_case(case: &Case) -> Result<(bool, Vec<&'static str>), Failure> {
    if let Some((d, flipped, relay)) = case.late_connect {
        late_connect_scenario(d, flipped, relay)?;
    }
    if let Some(body) = case.restart_and_bounded_queue {
        restart_and_bounded_queue_scenario(body)?;
    }
    let k = case.gates.len().saturating_sub(1);
    if k == 0 {
        return Ok((false, vec!["degenerate"]));
    }
    let nmod = (case.modules as usize).clamp(1, 17);
    net::log_clear();
    let mut sim = Sim::new(());
    // gates are created first (modules need their GateRefs), so nodes are created with empty send lists and
    // filled in afterwards through as_mut
    let paths: Vec<String> = (0..nmod).map(|i| format!("m{i}")).collect();
    for p in &paths {
        sim.node(p.as_str(), Node { sends: Vec::new(), echoes: Vec::new(), spacing: 0 });
    }
    let owners: Vec<usize> = case.gates.iter().map(|g| idx(g.owner, nmod)).collect();
    let mut gates: Vec<GateRef> = Vec::new();
    for (i, g) in case.gates.iter().enumerate() {
        let size = (g.size % 3) as usize + 1;
        let cluster = sim.gates(paths[owners[i]].as_str(), &format!("g{i}"), size);
        gates.push(cluster[g.pos as usize % size].clone());
    }
    let gate_paths: Vec<String> = gates.iter().map(|g| g.path().as_str().to_string()).collect();

    // connect calls: first call per hop in the generated order, repeats interleaved
    let mut hop_order: Vec<usize> = (0..k).collect();
    hop_order.sort_by_key(|h| (case.order.get(*h).copied().unwrap_or(0), *h));
    let queue = case.sends.iter().any(|s| s.follower);
    let mut hop_ch: Vec<Ch> = vec![Ch::None; k];
    let mut connected = vec![false; k];
    let mut repeat_panic: Option<String> = None;
    let mut do_connect = |h: usize, flipped: bool, ch: &Ch, connected: &mut Vec<bool>, hop_ch: &mut Vec<Ch>| {
        let (a, b) = if flipped { (gates[h + 1].clone(), gates[h].clone()) } else { (gates[h].clone(), gates[h + 1].clone()) };
        if connected[h] {
            // a repeated call for an existing hop is a no-op (connect is idempotent), whatever else the gates are
            // connected to by now
            if let Err((msg, _)) = catch(|| a.clone().connect(b.clone(), metrics(ch, queue).map(Channel::new))) {
                repeat_panic.get_or_insert(format!("repeated connect of hop {h} ({}flipped) panicked: {msg}", if flipped { "" } else { "not " }));
            }
            return;
        }
        a.connect(b, metrics(ch, queue).map(Channel::new));
        if !connected[h] {
            connected[h] = true;
            hop_ch[h] = ch.clone();
        }
    };
    let mut sorted_flag = true;
    let mut uniform = true;
    for (n, &h) in hop_order.iter().enumerate() {
        let (flipped, ch) = case.first.get(h).cloned().unwrap_or((false, Ch::None));
        if n > 0 && hop_order[n - 1] > h {
            sorted_flag = false;
        }
        if flipped != case.first.first().map_or(false, |f| f.0) {
            uniform = false;
        }
        do_connect(h, flipped, &ch, &mut connected, &mut hop_ch);
        for (at, rep) in &case.repeats {
            if idx(*at, k) == n {
                let rh = idx(rep.hop, k);
                if connected[rh] {
                    do_connect(rh, rep.flipped, &rep.ch, &mut connected, &mut hop_ch);
                }
            }
        }
    }

    if let Some(msg) = repeat_panic {
        // the panic was raised while the gates were locked; nothing else can be checked on this chain
        drop(gates);
        drop(sim);
        vfail!("connect-not-idempotent", "{msg}");
    }
    let structure = |when: &str| -> Result<(), Failure> {
        for (i, g) in gates.iter().enumerate() {
            let want = if i == 0 || i == k { GateKind::Endpoint } else { GateKind::Transit };
            vensure!(g.kind() == want, "gate-kind", "{when}: gate {} has kind {:?}, expected {:?}", gate_paths[i], g.kind(), want);
        }
        let fwd = walk(&gates[0]);
        let want_fwd: Vec<String> = gate_paths[1..].to_vec();
        vensure!(fwd.as_ref() == Some(&want_fwd), "path-iter", "{when}: path_iter from {} lists {:?}, chain is {:?}", gate_paths[0], fwd, want_fwd);
        let bwd = walk(&gates[k]);
        let want_bwd: Vec<String> = gate_paths[..k].iter().rev().cloned().collect();
        vensure!(bwd.as_ref() == Some(&want_bwd), "path-iter-mirror", "{when}: path_iter from {} lists {:?}, mirror image is {:?}", gate_paths[k], bwd, want_bwd);
        vensure!(
            gates[0].next_gate().map(|g| g.path().as_str().to_string()).as_deref() == Some(gate_paths[1].as_str()),
            "next-gate",
            "{when}: next_gate of {} wrong",
            gate_paths[0]
        );
        vensure!(
            gates[0].path_end().map(|g| g.path().as_str().to_string()).as_deref() == Some(gate_paths[k].as_str())
                && gates[k].path_end().map(|g| g.path().as_str().to_string()).as_deref() == Some(gate_paths[0].as_str()),
            "path-end",
            "{when}: path_end wrong"
        );
        for g in &gates[1..k] {
            vensure!(g.path_iter().is_none(), "path-iter", "{when}: transit gate offers a path iterator");
        }
        Ok(())
    };
    let mut pre = structure("after the connect calls");
    // a third peer on a transit gate must be rejected. The attempt is made after the run: the rejection is a
    // panic raised while both gates are locked, which poisons them; the property only says that a gate never
    // gets a third peer, not that the chain survives a caught panic.
    let pre = pre;
    let third: Option<(GateRef, GateRef, String)> = match (case.third, k >= 2) {
        (Some(t), true) if pre.is_ok() => {
            let ti = 1 + idx(t, k - 1);
            Some((sim.gate(paths[0].as_str(), "extra"), gates[ti].clone(), gate_paths[ti].clone()))
        }
        _ => None,
    };
    let mut third_done = false;
    if let Err(f) = pre {
        drop(gates);
        drop(sim);
        return Err(f);
    }
    // probes on every channel, both directions
    for (dir, end) in [(0i64, &gates[0]), (1i64, &gates[k])] {
        for (j, con) in end.path_iter().unwrap().take(64).enumerate() {
            if let Some(ch) = con.channel() {
                let hop = if dir == 0 { j as i64 } else { (k - 1 - j) as i64 };
                ch.attach_probe(Probe { hop, dir });
            }
        }
    }
    // sends
    let a_mod = sim.get(&ObjectPath::from(paths[owners[0]].as_str())).unwrap();
    let b_mod = sim.get(&ObjectPath::from(paths[owners[k]].as_str())).unwrap();
    let (a_id, b_id) = (a_mod.id().0 as i64, b_mod.id().0 as i64);
    // time slots: a send flagged `with_prev` shares the slot of its predecessor if that one goes the other way
    let mut slots: Vec<u16> = Vec::new();
    for (i, s) in case.sends.iter().enumerate() {
        let share = i > 0 && s.with_prev && case.sends[i - 1].from_far_end != s.from_far_end && owners[0] != owners[k]
            && !(i > 1 && slots[i - 1] == slots[i - 2]);
        slots.push(if share { slots[i - 1] } else { i as u16 });
    }
    let follower_ok: Vec<bool> = case
        .sends
        .iter()
        .enumerate()
        .map(|(i, s)| s.follower && !s.echo && slots.iter().filter(|x| **x == slots[i]).count() == 1)
        .collect();
    // time slots are 100 s apart, or further if the slowest possible message (2063 bytes) and its echo need longer
    // to leave the chain (a 1 bit/s hop keeps its channel busy for hours)
    let spacing: u128 = {
        let worst: u128 = hop_ch.iter().map(|c| hop_delay(c, 64 + 1999)).sum();
        (100_000_000_000u128).max((2 * worst / 1_000_000_000 + 100) * 1_000_000_000)
    };
    a_mod.as_mut::<Node>().spacing = spacing;
    b_mod.as_mut::<Node>().spacing = spacing;
    for (i, s) in case.sends.iter().enumerate() {
        let (m, g) = if s.from_far_end { (&b_mod, gates[k].clone()) } else { (&a_mod, gates[0].clone()) };
        m.as_mut::<Node>().sends.push((i as u16, g, s.delay, s.body % 2000, slots[i], follower_ok[i]));
    }
    // echoes only for sends that have their time slot for themselves and distinct endpoint modules
    let echo_ok: Vec<bool> = case
        .sends
        .iter()
        .enumerate()
        .map(|(i, s)| s.echo && owners[0] != owners[k] && slots.iter().filter(|x| **x == slots[i]).count() == 1)
        .collect();
    for (i, s) in case.sends.iter().enumerate() {
        if echo_ok[i] {
            let (m, g) = if s.from_far_end { (&a_mod, gates[0].clone()) } else { (&b_mod, gates[k].clone()) };
            m.as_mut::<Node>().echoes.push((i as u16, g));
        }
    }
    drop(a_mod);
    drop(b_mod);
    drop(gates);
    let rt = Builder::seeded(3).quiet().build(sim.freeze());
    let res = rt.run();
    let log = net::log_take();
    let ok = res.is_ok();
    let mut third_res = Ok(());
    if let Some((extra, target, name)) = third {
        third_done = true;
        third_res = match catch(|| extra.clone().connect(target.clone(), None)) {
            Ok(()) => Err(Failure::new("third-peer-accepted", format!("transit gate {name} accepted a third connection"))),
            Err((msg, _)) if !msg.contains("allready connected to multiple points") => Err(Failure::new(
                "third-peer-wrong-panic",
                format!("third connection on {name} panicked with an undocumented message: {msg}"),
            )),
            Err(_) => Ok(()),
        };
    }
    drop(res);
    vensure!(ok, "run-returned-error", "run() returned an error");
    third_res?;

    let mut labels_extra: Vec<&'static str> = Vec::new();
    let mut queued = false;
    for (i, s) in case.sends.iter().enumerate() {
        let len = 64 + (s.body % 2000) as usize;
        let t0 = spacing * (slots[i] as u128 + 1) + s.delay.unwrap_or(0) as u128;
        let hops: Vec<usize> = if s.from_far_end { (0..k).rev().collect() } else { (0..k).collect() };
        let mut t = t0;
        let mut want_probes: Vec<(u128, i64)> = Vec::new();
        for &h in &hops {
            if hop_ch[h] != Ch::None {
                want_probes.push((t, h as i64));
            }
            t += hop_delay(&hop_ch[h], len);
        }
        let (recv_path, far_gate, s_id, r_id) = if s.from_far_end {
            (&paths[owners[0]], &gate_paths[0], b_id, a_id)
        } else {
            (&paths[owners[k]], &gate_paths[k], a_id, b_id)
        };
        let arrivals: Vec<&Rec> = log.iter().filter(|r| r.kind.starts_with("recv") && r.a == i as i64).collect();
        vensure!(
            arrivals.len() == 1,
            if arrivals.is_empty() { "message-lost" } else { "message-duplicated" },
            "message {i} sent into {} was delivered {} times",
            if s.from_far_end { &gate_paths[k] } else { &gate_paths[0] },
            arrivals.len()
        );
        let r = arrivals[0];
        vensure!(r.path == *recv_path, "delivered-to-wrong-module", "message {i} was delivered to '{}', the far end belongs to '{recv_path}'", r.path);
        vensure!(
            r.now == t,
            "arrival-time",
            "message {i} ({len} bytes) arrived at {} ns, send time {t0} ns + per-hop delays = {t} ns (hops {:?})",
            r.now,
            hop_ch
        );
        vensure!(
            r.kind == format!("recv via {far_gate}"),
            "last-gate",
            "message {i}: header.last_gate is '{}', the final gate is '{far_gate}'",
            &r.kind[9..]
        );
        vensure!(
            r.b == (s_id << 16) | r_id,
            "header-module-ids",
            "message {i}: header (sender, receiver) = ({}, {}), expected ({s_id}, {r_id})",
            r.b >> 16,
            r.b & 0xffff
        );
        if follower_ok[i] {
            // the follower queues behind the first message wherever a hop has a bitrate: it still arrives exactly
            // once, at the same module through the same gate, not before the uncontended arrival time
            let id = i as i64 + 500;
            let arr: Vec<&Rec> = log.iter().filter(|r| r.kind.starts_with("recv") && r.a == id).collect();
            vensure!(
                arr.len() == 1,
                if arr.is_empty() { "message-lost" } else { "message-duplicated" },
                "the second of two back-to-back messages (#{id}) sent into {} was delivered {} times (deliveries of it anywhere: {:?})",
                if s.from_far_end { &gate_paths[k] } else { &gate_paths[0] },
                arr.len(),
                log.iter().filter(|r| r.a == id && (r.kind.starts_with("recv") || r.kind.starts_with("echo"))).map(|r| (r.path.clone(), r.now)).collect::<Vec<_>>()
            );
            let f = arr[0];
            vensure!(f.path == *recv_path, "delivered-to-wrong-module", "queued message #{id} was delivered to '{}', the far end belongs to '{recv_path}'", f.path);
            vensure!(f.now >= t, "arrival-time", "queued message #{id} arrived at {} ns, before the uncontended arrival time {t} ns", f.now);
            vensure!(f.kind == format!("recv via {far_gate}"), "last-gate", "queued message #{id}: header.last_gate is '{}', the final gate is '{far_gate}'", &f.kind[9..]);
            vensure!(
                f.b == (s_id << 16) | r_id,
                "header-module-ids",
                "queued message #{id}: header (sender, receiver) = ({}, {}), expected ({s_id}, {r_id})",
                f.b >> 16,
                f.b & 0xffff
            );
            if hop_ch.iter().any(|c| matches!(c, Ch::Rate(..))) {
                queued = true;
            }
        }
        if echo_ok[i] {
            // the echo travels the chain the other way round and arrives at the original sender
            let mut te = t;
            for &h in hops.iter().rev() {
                te += hop_delay(&hop_ch[h], len);
            }
            let (home, home_gate) = if s.from_far_end { (&paths[owners[k]], &gate_paths[k]) } else { (&paths[owners[0]], &gate_paths[0]) };
            let echoes: Vec<&Rec> = log.iter().filter(|r| r.kind.starts_with("echo") && r.a == i as i64).collect();
            vensure!(echoes.len() == 1, if echoes.is_empty() { "message-lost" } else { "message-duplicated" }, "echo of message {i} was delivered {} times", echoes.len());
            let e = echoes[0];
            vensure!(e.path == *home && e.now == te, "arrival-time", "echo of message {i} arrived at '{}' at {} ns, expected '{home}' at {te} ns", e.path, e.now);
            vensure!(e.kind == format!("echo via {home_gate}"), "last-gate", "echo of message {i}: last_gate '{}', expected '{home_gate}'", &e.kind[9..]);
            vensure!(
                e.b == (r_id << 16) | s_id,
                "header-module-ids",
                "echo of message {i} (the received Message object sent on): header (sender, receiver) = ({}, {}), expected ({r_id}, {s_id})",
                e.b >> 16,
                e.b & 0xffff
            );
        }
        let dir = if s.from_far_end { 1 } else { 0 };
        let probes: Vec<(u128, i64)> = log
            .iter()
            .filter(|r| r.kind == format!("probe{i}") && r.b == dir)
            .map(|r| (r.now, r.a))
            .collect();
        vensure!(
            probes == want_probes,
            "hop-order",
            "message {i}: channel probes fired as {:?} (time, hop), expected {:?}",
            probes,
            want_probes
        );
    }
    if echo_ok.iter().any(|e| *e) {
        labels_extra.push("echo-of-received-message");
    }
    let recvs = log.iter().filter(|r| r.kind.starts_with("recv")).count();
    let sent = case.sends.len() + follower_ok.iter().filter(|f| **f).count();
    vensure!(recvs == sent, "message-duplicated", "{recvs} deliveries for {sent} sends");
    if queued {
        labels_extra.push("second-message-waits-in-channel-queue");
    }

    let mut labels = labels_extra;
    if k >= 3 {
        labels.push("hops>=3");
    }
    if k >= 9 {
        labels.push("hops>=9");
    }
    if !sorted_flag {
        labels.push("connect-order-not-sorted");
    }
    if !uniform {
        labels.push("mixed-orientation");
    }
    if third_done {
        labels.push("third-peer-rejected");
    }
    if case.sends.iter().any(|s| s.from_far_end) && case.sends.iter().any(|s| !s.from_far_end) {
        labels.push("both-directions");
    }
    if hop_ch.iter().any(|c| matches!(c, Ch::Rate(..))) {
        labels.push("bitrate-channel");
    }
    if !case.repeats.is_empty() {
        labels.push("repeated-connect");
    }
    if case.late_connect.is_some() {
        labels.push("chain-connected-between-send-request-and-departure");
    }
    if case.restart_and_bounded_queue.is_some() {
        labels.push("send-from-restart-stage+bounded-queue-after-overflow");
    }
    if slots.windows(2).any(|w| w[0] == w[1]) {
        labels.push("simultaneous-opposite-traffic");
    }
    Ok((k >= 3 && !sorted_flag && !uniform && !case.sends.is_empty(), labels))
}

impl Prop for C08 {
    const ID: &'static str = "C08";
    type Case = Case;

    fn rule() -> String {
        "proptest: chains of 1..8 (quick) / 1..16 (thorough) hops over 1..17 modules (gates may share modules, gates taken from clusters of size 1..3), \
         built by one connect call per hop in a generated permutation and orientation plus repeated calls in either orientation, channels (none / \
         latency / bitrate+latency) on a generated subset of hops, sends from both endpoints with send() and send_in() (also simultaneously in opposite directions; \
         some followed at once by a second message that has to wait in the queueing channels: that one is checked for exactly-once delivery, module, gate and header only), a delayed send requested before its chain is connected, a send from the start-up stage of a restart and a burst over a byte-bounded queue that overflowed before (small extra simulations over one or two hops), an attempted \
         third connection on a transit gate under catch_unwind. Oracle: exactly one delivery per send at the owner of the far endpoint at send time + \
         sum of per-hop (len*8/bitrate + latency); header sender/receiver ids and last_gate; per-hop probes in chain order at the cumulative times; \
         gate kinds, path_iter from both ends (exact mirror), next_gate, path_end; third peer rejected with the documented panic and chain intact. \
         Non-trivial iff hops >= 3 AND the connect order is not sorted AND orientations are mixed AND at least one message is sent."
            .into()
    }
    fn assumptions() -> Vec<String> {
        vec![
            "sends are at least 100 s apart (further if the chain's worst-case traversal time demands it), so no channel is busy when a first message arrives; the arrival time of a queued second message is only bounded from below (queueing delays are C07)".into(),
            "transmission time is computed as Duration::from_secs_f64(len*8/bitrate) like the code does; its accuracy is checked in C07".into(),
        ]
    }
    fn plan(tier: Tier) -> Plan {
        Plan {
            shards: tier.pick(4, 16),
            cases_per_shard: tier.pick(2_000, 36_000),
            watchdog: StdDuration::from_secs(tier.pick(300, 3600)),
        }
    }
    fn strategy(tier: Tier) -> BoxedStrategy<Case> {
        let max_hops = tier.pick(8usize, 16usize);
        let ch = prop_oneof![
            3 => Just(Ch::None),
            2 => prop_oneof![Just(0u32), Just(1), 1u32..1_000_000_000].prop_map(Ch::Latency),
            2 => (prop_oneof![Just(1_000u32), Just(1_000_000), 1u32..2_000_000_000], 0u32..1_000_000_000).prop_map(|(r, l)| Ch::Rate(r, l)),
        ];
        let gate = (any::<u16>(), 0u8..3, 0u8..3).prop_map(|(owner, size, pos)| GateSpec { owner, size, pos });
        let rep = (any::<u16>(), (any::<u16>(), any::<bool>(), ch.clone()).prop_map(|(hop, flipped, ch)| ConnectCall { hop, flipped, ch }));
        let send = (any::<bool>(), proptest::option::weighted(0.5, prop_oneof![Just(0u32), 1u32..1_000_000_000]), 0u16..2000, any::<bool>())
            .prop_map(|(from_far_end, delay, body, with_prev)| SendSpec { from_far_end, delay, body, with_prev, echo: body % 3 == 0, follower: body % 3 == 1 && body % 2 == 0 });
        (2usize..=max_hops + 1)
            .prop_flat_map(move |ngates| {
                (
                    1u8..=17,
                    proptest::collection::vec(gate.clone(), ngates),
                    proptest::collection::vec(any::<u16>(), ngates - 1),
                    proptest::collection::vec((any::<bool>(), ch.clone()), ngates - 1),
                    proptest::collection::vec(rep.clone(), 0..3),
                    proptest::collection::vec(send.clone(), 0..5),
                    proptest::option::weighted(0.4, any::<u16>()),
                    proptest::option::weighted(0.2, (any::<u16>(), any::<bool>(), any::<bool>())),
                    proptest::option::weighted(0.1, 0u8..200),
                )
            })
            .prop_map(|(modules, gates, order, first, repeats, sends, third, late_connect, restart_and_bounded_queue)| Case {
                late_connect,
                restart_and_bounded_queue,
                modules,
                gates,
                order,
                first,
                repeats,
                sends,
                third,
            })
            .boxed()
    }
    fn run(case: &Case) -> Outcome {
        match run_case(case) {
            Ok((nt, labels)) => Outcome::ok(nt, labels),
            Err(f) => Outcome::failed(f),
        }
    }
}
