//! Engine 2: bounded libFuzzer campaigns (cargo-fuzz) run by the thorough tier.
//! The targets live in harness/fuzz and reuse the interpreters and oracles of the proptest checks.

use crate::engine::{verif_root, ExtraEvidence, Violation};
use serde_json::json;
use std::path::PathBuf;
use std::process::Command;

pub struct Campaign<'a> {
    pub property: &'a str,
    pub target: &'a str,
    /// build with AddressSanitizer (memory-safety target) or without (semantic targets, ~10x faster)
    pub asan: bool,
    pub runs: u64,
    pub max_len: usize,
    pub seed: u64,
    /// initial corpus
    pub seeds: Vec<Vec<u8>>,
    /// wall-clock cap in seconds (reaching it ends the campaign early; never a violation)
    pub max_time: u64,
}

fn fuzz_dir() -> PathBuf {
    verif_root().join("harness").join("fuzz")
}

fn cargo_fuzz(args: &[&str]) -> Command {
    let mut c = Command::new("cargo");
    c.arg("+nightly").arg("fuzz").args(args);
    c.current_dir(fuzz_dir());
    c.env("RUSTFLAGS", "--cfg tokio_unstable --cfg petrichorit_des_verif");
    c.env("CARGO_NET_OFFLINE", "true");
    c.env("VERIF_ROOT", verif_root());
    c
}

/// The generic target: libFuzzer's bytes are fed to the property's proptest strategy as its random stream
/// (proptest's pass-through RNG), the generated case runs through the same interpreter and oracle.
pub fn prop_bytes(id: &str, seed: u64, ev: &mut ExtraEvidence) -> Vec<Violation> {
    run(
        &Campaign {
            property: id,
            target: "prop_bytes",
            asan: false,
            runs: 100_000,
            max_len: 4096,
            seed,
            seeds: random_seeds(seed, 24, 4096),
            max_time: 150,
        },
        ev,
    )
}

/// Runs one campaign; returns violations (with replay files written by the target).
pub fn run(c: &Campaign, ev: &mut ExtraEvidence) -> Vec<Violation> {
    let key = format!("fuzz_{}", c.target);
    let san: &[&str] = if c.asan { &[] } else { &["--sanitizer", "none"] };
    let mut build_args = vec!["build", "--fuzz-dir", "."];
    build_args.extend_from_slice(san);
    build_args.push(c.target);
    let build = cargo_fuzz(&build_args).output();
    match build {
        Ok(o) if o.status.success() => {}
        Ok(o) => {
            let err = String::from_utf8_lossy(&o.stderr);
            let tail: Vec<&str> = err.lines().rev().take(6).collect();
            ev.fields.insert(key, json!({"status": "not run: fuzz build failed", "detail": tail}));
            return Vec::new();
        }
        Err(e) => {
            ev.fields.insert(key, json!({"status": format!("not run: cargo fuzz unavailable: {e}")}));
            return Vec::new();
        }
    }
    let corpus = fuzz_dir().join("corpus").join(format!("{}-{}-{}", c.target, c.property, std::process::id()));
    let _ = std::fs::remove_dir_all(&corpus);
    std::fs::create_dir_all(&corpus).expect("corpus dir");
    for (i, s) in c.seeds.iter().enumerate() {
        let _ = std::fs::write(corpus.join(format!("seed-{i:03}")), s);
    }
    let artifacts = fuzz_dir().join("artifacts").join(c.target);
    let _ = std::fs::create_dir_all(&artifacts);
    let corpus_s = corpus.display().to_string();
    let runs = format!("-runs={}", c.runs);
    let seed = format!("-seed={}", (c.seed % 4_000_000_000) + 1);
    let maxlen = format!("-max_len={}", c.max_len);
    let prefix = format!("-artifact_prefix={}/", artifacts.display());
    let maxtime = format!("-max_total_time={}", c.max_time);
    let mut run_args = vec!["run", "--fuzz-dir", "."];
    run_args.extend_from_slice(san);
    run_args.extend_from_slice(&[c.target, &corpus_s, "--", &runs, &seed, "-len_control=0", &maxlen, &prefix, "-print_final_stats=1", &maxtime]);
    let out = cargo_fuzz(&run_args).env("VERIF_FUZZ_PROP", c.property).output();
    let _ = std::fs::remove_dir_all(&corpus);
    let Ok(out) = out else {
        ev.fields.insert(key, json!({"status": "not run: could not start the fuzzer"}));
        return Vec::new();
    };
    let err = String::from_utf8_lossy(&out.stderr).to_string();
    let execs = err
        .lines()
        .find_map(|l| l.strip_prefix("stat::number_of_executed_units: "))
        .and_then(|v| v.trim().parse::<u64>().ok())
        .or_else(|| {
            err.lines()
                .find_map(|l| l.strip_prefix("Done "))
                .and_then(|l| l.split(' ').next().and_then(|v| v.parse().ok()))
        })
        .unwrap_or(0);
    ev.evaluations += execs;
    let mut violations = Vec::new();
    for l in err.lines() {
        if let Some(rest) = l.strip_prefix("FUZZ-VIOLATION ") {
            let replay = rest.split(' ').find_map(|t| t.strip_prefix("replay=")).unwrap_or("").to_string();
            let sig = rest.split(' ').find_map(|t| t.strip_prefix("signature=")).unwrap_or("fuzz").to_string();
            violations.push(Violation {
                sig,
                msg: format!("found by the libFuzzer target {} after {execs} executions", c.target),
                replay,
            });
        }
    }
    let crashed = !out.status.success();
    if crashed && violations.is_empty() {
        // a crash that is not an oracle failure: sanitizer report, abort, timeout, out-of-memory
        let art = err
            .lines()
            .find_map(|l| l.split("Test unit written to ").nth(1))
            .unwrap_or("")
            .trim()
            .to_string();
        let kind = err.lines().find(|l| l.contains("ERROR:") || l.contains("SUMMARY:")).unwrap_or("fuzzer exited with an error").to_string();
        if kind.contains("AddressSanitizer") && !kind.contains("out-of-memory") || kind.contains("deadly signal") {
            violations.push(Violation {
                sig: "fuzz-crash".into(),
                msg: format!("libFuzzer target {} crashed: {kind}", c.target),
                replay: art,
            });
        } else {
            ev.fields.insert(format!("{key}_note"), json!(format!("campaign ended abnormally (not a violation): {kind}")));
        }
    }
    ev.fields.insert(
        key,
        json!({"status": "ran", "executions": execs, "sanitizer": if c.asan { "address" } else { "none" }, "runs_requested": c.runs,
               "max_len": c.max_len, "seed_files": c.seeds.len(), "violations": violations.len()}),
    );
    violations
}

/// Deterministic pseudo-random seed files (splitmix64), so that the fuzzer starts at full length.
pub fn random_seeds(seed: u64, count: usize, len: usize) -> Vec<Vec<u8>> {
    let mut x = seed.wrapping_add(0x9E37_79B9_7F4A_7C15);
    let mut next = move || {
        x = x.wrapping_add(0x9E37_79B9_7F4A_7C15);
        let mut z = x;
        z = (z ^ (z >> 30)).wrapping_mul(0xBF58_476D_1CE4_E5B9);
        z = (z ^ (z >> 27)).wrapping_mul(0x94D0_49BB_1331_11EB);
        z ^ (z >> 31)
    };
    (0..count)
        .map(|i| {
            let l = 8 + (len * (i + 1)) / count;
            (0..l).map(|_| next() as u8).collect()
        })
        .collect()
}
