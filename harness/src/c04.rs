//! C04 – seeded simulations are reproducible.

use crate::c13;
use crate::engine::*;
use crate::net::{self, du, Rec};
use crate::{vensure, vfail};
use des::net::channel::{ChannelDropBehaviour, ChannelMetrics};
use des::prelude::*;
use des::time::sleep;
use proptest::prelude::*;
use serde::{Deserialize, Serialize};
use std::hash::{Hash, Hasher};
use std::time::Duration as StdDuration;

#[derive(Clone, Debug, Serialize, Deserialize, PartialEq)]
pub enum Kind {
    /// synchronous handler: draws random numbers, forwards with a random decision
    Sync { draws: u8 },
    /// a task with unbiased select! over two equally due sleeps and the inbox; optionally the module shuts itself
    /// down in round `restart.0` of its first incarnation and restarts `restart.1` ms later
    Async {
        rounds: u8,
        period_ms: u8,
        #[serde(default)]
        restart: Option<(u8, u8)>,
        /// further tasks of the same module that sleep until the very same instants as the main task and draw a
        /// random number after every wake-up: which task gets which number depends on the wake/poll order
        #[serde(default)]
        twins: u8,
    },
}

#[derive(Clone, Debug, Serialize, Deserialize)]
pub struct Case {
    pub seed: u64,
    pub mods: Vec<Kind>,
    /// channel jitter in microseconds (> 0), latency in microseconds
    pub jitter_us: u16,
    pub latency_us: u16,
    /// extra chords i -> j (gate "x{k}") besides the ring
    pub chords: Vec<(u8, u8)>,
    pub ttl: u8,
    /// synchronous modules schedule / send a message from at_sim_end (never dispatched in this run; must not leak
    /// into a later simulation of the same process)
    #[serde(default)]
    pub emit_at_end: bool,
    /// additionally run a small network built from an NDL description whose modules enumerate their gates and pick
    /// one with the seeded RNG: the order in which a description's gates are created is part of the behaviour
    #[serde(default)]
    pub ndl: bool,
    /// between the two executions another simulation of this process crashes: a processing element panics, run()
    /// unwinds with the runtime alive (des' global lock is left poisoned); the next seeded run must not notice
    #[serde(default)]
    pub crash_between: bool,
}

pub struct C04;

/// A simulation whose run() unwinds.
fn crash_once() {
    struct Boom;
    impl des::net::processing::ProcessingElement for Boom {
        fn incoming(&mut self, _: Message) -> Option<Message> {
            panic!("injected fault in a processing element");
        }
    }
    struct Idle;
    impl Module for Idle {
        fn at_sim_start(&mut self, _: usize) {
            schedule_in(Message::default(), Duration::from_millis(1));
        }
    }
    let mut sim = Sim::new(()).with_stack(|| {
        let mut s = des::net::processing::ProcessingStack::default();
        s.append(Boom);
        s
    });
    sim.node("x", Idle);
    let rt = Builder::seeded(1).quiet().build(sim.freeze());
    let _ = catch(|| rt.run());
}

const NDL_NET: &str = r#"
entry: Net
modules:
  Net:
    submodules:
      a: Station
      b: Station
      c: Station
    connections:
    - peers: [a/east, b/west]
    - peers: [b/east, c/west]
    - peers: [c/east, a/west]
  Station:
    gates:
    - east
    - west
    - north
    - south[2]
    - mgmt
    - aux
"#;

struct Station;
impl Module for Station {
    fn at_sim_start(&mut self, _: usize) {
        // the enumeration order of the gates, and a choice that depends on it
        let gates = current().gates();
        for (k, g) in gates.iter().enumerate() {
            net::log(&format!("gate {}[{}]", g.name(), g.pos()), k as i64, 0);
        }
        let pick = sample::<usize, _>(rand::distr::Uniform::new(0usize, gates.len().max(1)).unwrap());
        net::log(&format!("picked {}", gates.get(pick).map_or("-", |g| g.name())), pick as i64, 0);
    }
}
impl des::net::ndl::RegistryCreatable for Station {
    fn create(_: &ObjectPath, _: &str) -> Self {
        Station
    }
}
struct NetRoot;
impl Module for NetRoot {}
impl des::net::ndl::RegistryCreatable for NetRoot {
    fn create(_: &ObjectPath, _: &str) -> Self {
        NetRoot
    }
}

/// The log of the NDL-built network under the given seed.
fn ndl_trace(seed: u64) -> Vec<Rec> {
    net::log_clear();
    let def: des::net::ndl::Def = serde_yml::from_str(NDL_NET).expect("fixed description parses");
    let mut sim = Sim::new(());
    let mut reg = des::net::ndl::Registry::new().symbol::<NetRoot>("Net").symbol::<Station>("Station");
    sim.nodes_from_ndl(&def, &mut reg).expect("fixed description builds");
    let rt = Builder::seeded(seed).quiet().max_itr(10_000).build(sim.freeze());
    let res = rt.run();
    drop(res);
    net::log_take()
}

struct SyncMod {
    emit_at_end: bool,
    draws: u8,
    ttl: u8,
    outs: usize,
}

impl Module for SyncMod {
    fn at_sim_end(&mut self) -> Result<(), RuntimeError> {
        if self.emit_at_end {
            net::log("emit-at-end", 0, 0);
            schedule_in(Message::default().kind(1).id(999), Duration::from_millis(7));
            send(Message::default().kind(2).id(998).src([3, 0, 0, 0, 0, 0]), "out");
        }
        Ok(())
    }
    fn at_sim_start(&mut self, _: usize) {
        let d: u64 = random::<u64>() % 5_000;
        net::log("start-draw", d as i64, 0);
        schedule_in(Message::default().kind(1), Duration::from_micros(d));
    }
    fn handle_message(&mut self, msg: Message) {
        let h = msg.header();
        net::log("recv", h.kind as i64, h.id as i64);
        if self.draws % 2 == 1 {
            // an unbiased select! evaluated synchronously inside the handler (both branches ready): the branch is
            // chosen by tokio's generator, which has to be the seeded one here as well
            use futures::FutureExt;
            let pick = async {
                tokio::select! {
                    _ = std::future::ready(()) => 0,
                    _ = std::future::ready(()) => 1,
                    _ = std::future::ready(()) => 2,
                }
            }
            .now_or_never()
            .unwrap_or(-1);
            net::log("sync-select", pick, 0);
        }
        for _ in 0..self.draws {
            let v: u64 = random();
            net::log("draw", (v >> 1) as i64, 0);
        }
        let ttl = if h.kind == 1 { self.ttl } else { h.src[0] };
        if ttl > 0 {
            let pick = sample::<usize, _>(rand::distr::Uniform::new(0usize, self.outs.max(1)).unwrap());
            let gate = if pick == 0 { "out".to_string() } else { format!("x{}", pick - 1) };
            net::log("fwd", pick as i64, ttl as i64);
            send(Message::default().kind(2).id(h.id.wrapping_add(1)).src([ttl - 1, 0, 0, 0, 0, 0]), gate.as_str());
        }
    }
}

struct AsyncMod {
    inc: u8,
    restart: Option<(u8, u8)>,
    rounds: u8,
    period: u8,
    twins: u8,
    ttl: u8,
    tx: Option<tokio::sync::mpsc::UnboundedSender<(u16, u8)>>,
}

impl Module for AsyncMod {
    fn at_sim_start(&mut self, _: usize) {
        let (tx, mut rx) = tokio::sync::mpsc::unbounded_channel::<(u16, u8)>();
        self.tx = Some(tx);
        self.inc += 1;
        net::log("incarnation", self.inc as i64, 0);
        let restart = if self.inc == 1 { self.restart } else { None };
        let (rounds, period, ttl0) = (self.rounds, self.period.max(1) as u64, self.ttl);
        current().try_join(tokio::spawn(async move {
            for r in 0..rounds {
                if let Some((at, delay)) = restart {
                    if at % rounds.max(1) == r {
                        net::log("shutdown-request", r as i64, delay as i64);
                        current().shutdow_and_restart_in(Duration::from_millis(delay as u64));
                    }
                }
                // both sleeps are due at the same instant: the branch is chosen by tokio's (seeded) RNG
                tokio::select! {
                    _ = sleep(Duration::from_millis(period)) => net::log("select", r as i64, 0),
                    _ = sleep(Duration::from_millis(period)) => net::log("select", r as i64, 1),
                    m = rx.recv() => {
                        if let Some((id, ttl)) = m {
                            net::log("task-recv", id as i64, ttl as i64);
                            if ttl > 0 {
                                send(Message::default().kind(2).id(id.wrapping_add(1)).src([ttl - 1, 0, 0, 0, 0, 0]), "out");
                            }
                        }
                    }
                }
                let v: u32 = random();
                net::log("task-draw", v as i64, 0);
            }
            let _ = ttl0;
        }));
        for k in 0..self.twins {
            tokio::spawn(async move {
                for _ in 0..rounds {
                    sleep(Duration::from_millis(period)).await;
                    let v: u32 = random();
                    net::log("twin-draw", k as i64, v as i64);
                }
            });
        }
        let ttl = self.ttl;
        tokio::spawn(async move {
            sleep(Duration::from_micros(700)).await;
            net::log("kick", 0, 0);
            send(Message::default().kind(2).id(500).src([ttl, 0, 0, 0, 0, 0]), "out");
        });
    }
    fn handle_message(&mut self, msg: Message) {
        let h = msg.header();
        net::log("recv", h.kind as i64, h.id as i64);
        if let Some(tx) = &self.tx {
            let _ = tx.send((h.id, h.src[0]));
        }
    }
}

#[derive(Clone, Debug, PartialEq, Serialize, Deserialize)]
pub struct Trace {
    pub log: Vec<(String, String, u128, i64, i64)>,
    pub end_ns: u128,
    pub events: usize,
    pub ok: bool,
}

pub fn trace_of(case: &Case, seed: u64) -> Trace {
    let n = case.mods.len().clamp(2, 6);
    let ndl_log: Vec<Rec> = if case.ndl { ndl_trace(seed) } else { Vec::new() };
    net::log_clear();
    let mut sim = Sim::new(());
    let chords: Vec<(usize, usize)> = case.chords.iter().map(|(a, b)| (*a as usize % n, *b as usize % n)).filter(|(a, b)| a != b).collect();
    for (i, k) in case.mods.iter().take(n).enumerate() {
        let outs = 1 + chords.iter().filter(|c| c.0 == i).count();
        match k {
            Kind::Sync { draws } => sim.node(
                format!("n{i}"),
                SyncMod {
                    emit_at_end: case.emit_at_end,
                    draws: *draws % 4,
                    ttl: case.ttl % 10,
                    outs,
                },
            ),
            Kind::Async { rounds, period_ms, restart, twins } => sim.node(
                format!("n{i}"),
                AsyncMod {
                    inc: 0,
                    restart: *restart,
                    rounds: *rounds % 8,
                    period: *period_ms % 5 + 1,
                    twins: *twins % 4,
                    ttl: case.ttl % 10,
                    tx: None,
                },
            ),
        }
    }
    let metrics = ChannelMetrics::new(
        1_000_000,
        du(case.latency_us as u128 * 1_000),
        du(case.jitter_us.max(1) as u128 * 1_000),
        ChannelDropBehaviour::Queue(None),
    );
    for i in 0..n {
        sim.gate(format!("n{i}"), "out")
            .connect(sim.gate(format!("n{}", (i + 1) % n), &format!("in{i}")), Some(Channel::new(metrics)));
    }
    let mut per: Vec<usize> = vec![0; n];
    for (k, (a, b)) in chords.iter().enumerate() {
        let name = format!("x{}", per[*a]);
        per[*a] += 1;
        sim.gate(format!("n{a}"), &name)
            .connect(sim.gate(format!("n{b}"), &format!("cin{k}")), Some(Channel::new(metrics)));
    }
    let rt = Builder::seeded(seed).quiet().max_itr(100_000).build(sim.freeze());
    let res = rt.run();
    let log: Vec<Rec> = net::log_take();
    let (end_ns, events, ok) = match &res {
        Ok((_, t, p)) => (t.as_nanos(), p.event_count, true),
        Err(_) => (0, 0, false),
    };
    drop(res);
    Trace {
        log: ndl_log.into_iter().map(|r| (format!("ndl:{}", r.path), r.kind, r.now, r.a, r.b)).chain(log.into_iter().map(|r| (r.path, r.kind, r.now, r.a, r.b))).collect(),
        end_ns,
        events,
        ok,
    }
}

fn digest(t: &Trace) -> u64 {
    let mut h = std::collections::hash_map::DefaultHasher::new();
    serde_json::to_string(t).unwrap().hash(&mut h);
    h.finish()
}

/// Entry point of the child process: prints the trace of the case stored in the given file.
pub fn trace_main(path: &str) -> i32 {
    let text = std::fs::read_to_string(path).expect("case file");
    let case: Case = serde_json::from_str(&text).expect("case");
    let t = trace_of(&case, case.seed);
    println!("{}", serde_json::to_string(&t).unwrap());
    0
}

fn first_diff(a: &Trace, b: &Trace) -> String {
    for (k, (x, y)) in a.log.iter().zip(b.log.iter()).enumerate() {
        if x != y {
            return format!("log entry #{k}: {x:?} vs {y:?}");
        }
    }
    format!(
        "log lengths {} vs {}, end {} vs {} ns, events {} vs {}, ok {} vs {}",
        a.log.len(),
        b.log.len(),
        a.end_ns,
        b.end_ns,
        a.events,
        b.events,
        a.ok,
        b.ok
    )
}

pub fn run_case(case: &Case) -> Result<(bool, Vec<&'static str>), Failure> {
    let t1 = trace_of(case, case.seed);
    // unrelated simulations in between: global id counters, allocator state and RNG have moved on
    let _ = c13::canonical_followup()?;
    if case.crash_between {
        crash_once();
    }
    let t2 = trace_of(case, case.seed);
    vensure!(
        t1 == t2,
        "same-process-runs-differ",
        "two runs with seed {} in one process differ: {}",
        case.seed,
        first_diff(&t1, &t2)
    );
    let mut labels = Vec::new();
    // a fresh process for every 8th case (by content)
    let mut h = std::collections::hash_map::DefaultHasher::new();
    serde_json::to_string(case).unwrap().hash(&mut h);
    if h.finish() % 8 == 0 && std::env::var_os("VERIF_FUZZ_PROP").is_none() {
        let dir = verif_root().join("replays").join("C04");
        let _ = std::fs::create_dir_all(&dir);
        let file = dir.join(format!("child-{}-{:x}.json", std::process::id(), digest(&t1)));
        std::fs::write(&file, serde_json::to_string(case).unwrap()).unwrap();
        let out = std::process::Command::new(std::env::current_exe().unwrap())
            .arg("C04")
            .arg("quick")
            .env("VERIF_C04_TRACE", &file)
            .output();
        let _ = std::fs::remove_file(&file);
        let out = match out {
            Ok(o) if o.status.success() => o,
            Ok(o) => vfail!("child-process-failed", "the child process ended with {}: {}", o.status, String::from_utf8_lossy(&o.stderr)),
            Err(e) => vfail!("child-process-failed", "cannot spawn the child process: {e}"),
        };
        let t3: Trace = match serde_json::from_slice(&out.stdout) {
            Ok(t) => t,
            Err(e) => vfail!("child-process-failed", "child output does not parse: {e}"),
        };
        vensure!(
            t1 == t3,
            "separate-process-run-differs",
            "the run with seed {} in a fresh process differs from the run in this process: {}",
            case.seed,
            first_diff(&t1, &t3)
        );
        labels.push("compared-with-fresh-process");
    }
    // sanity of the oracle: another seed should change the trace of a model that draws random numbers
    let other = trace_of(case, case.seed ^ 0x5555_5555);
    if other != t1 {
        labels.push("other-seed-changes-trace");
    }
    let n = case.mods.len().clamp(2, 6);
    let has_async = case.mods.iter().take(n).any(|k| matches!(k, Kind::Async { rounds, .. } if rounds % 8 > 0));
    if t1.log.iter().any(|r| r.1 == "incarnation" && r.3 >= 2) && t1.log.iter().rev().take_while(|r| !(r.1 == "incarnation" && r.3 >= 2)).any(|r| r.1 == "select") {
        labels.push("select-after-restart");
    }
    let has_draw = t1.log.iter().any(|r| r.1 == "draw" || r.1 == "task-draw");
    let has_select = t1.log.iter().any(|r| r.1 == "select");
    let has_jitter = t1.log.iter().any(|r| r.1 == "recv" && r.3 == 2);
    if has_select {
        labels.push("unbiased-select");
    }
    if t1.log.iter().any(|r| r.1 == "sync-select") {
        labels.push("unbiased-select-inside-a-synchronous-handler");
    }
    if has_jitter {
        labels.push("message-over-jittered-channel");
    }
    if has_async {
        labels.push("async-module");
    }
    if t1.log.windows(2).any(|w| w[0].1 == "twin-draw" && w[1].1 == "twin-draw" && w[0].0 == w[1].0 && w[0].2 == w[1].2 && w[0].3 != w[1].3) {
        labels.push("two-tasks-woken-at-the-same-instant");
    }
    if case.ndl {
        labels.push("network-built-from-an-NDL-description");
    }
    if case.crash_between {
        labels.push("another-simulation-crashed-in-between");
    }
    if case.seed == 0 || case.seed == u64::MAX {
        labels.push("boundary-seed");
    }
    if t1.log.iter().any(|r| r.1 == "emit-at-end") {
        labels.push("emission-during-tear-down");
    }
    Ok((has_draw && has_select && has_jitter, labels))
}

impl Prop for C04 {
    const ID: &'static str = "C04";
    type Case = Case;

    fn rule() -> String {
        "proptest: 2..6 modules in a ring plus generated chords, every link a channel with latency, bitrate and jitter > 0; module kinds: \
         synchronous handlers that draw random::<u64>(), evaluate an unbiased three-way select! on the spot and choose the forwarding gate with sample(Uniform), and async modules whose task loops \
         over an unbiased tokio::select! of two sleeps due at the same instant and the inbox, drawing random numbers, with 0..3 further \
         tasks per module that sleep until the very same instants and draw a number after each wake-up, optionally \
         shutting themselves down and restarting (new runtime, the task starts over); random start delays; in a quarter of the cases also a three-station ring built from an NDL description whose modules enumerate their gates and pick one at random; generated \
         Builder::seeded seed (0, 1 and u64::MAX over-sampled). Oracle (differential): the complete trace (time, module path, event kind, message ids, random values, select \
         branches, forwarding choices) plus final time, event count and result must be identical for two runs in the same worker process \
         (with an unrelated simulation in between, in a fifth of the cases also one whose run() unwinds because a processing element panics) and, for every 8th case, for a run in a freshly spawned process. Counted, not asserted: a \
         different seed changes the trace. Non-trivial iff the trace contains a random draw, an unbiased select decision and a message that \
         crossed a jittered channel."
            .into()
    }
    fn assumptions() -> Vec<String> {
        vec![
            "module ids are not part of the trace (paths are); raw ModuleIds legitimately differ between runs".into(),
            "reproducibility across machines / toolchains is not checked".into(),
        ]
    }
    fn plan(tier: Tier) -> Plan {
        Plan {
            shards: tier.pick(4, 16),
            cases_per_shard: tier.pick(1_500, 18_000),
            watchdog: StdDuration::from_secs(tier.pick(300, 3600)),
        }
    }
    fn strategy(_tier: Tier) -> BoxedStrategy<Case> {
        let kind = prop_oneof![
            (0u8..4).prop_map(|draws| Kind::Sync { draws }),
            (0u8..8, 0u8..5, proptest::option::weighted(0.4, (0u8..8, 0u8..6)), 0u8..4).prop_map(|(rounds, period_ms, restart, twins)| Kind::Async {
                rounds,
                period_ms,
                restart,
                twins
            }),
        ];
        (
            // boundary seeds as well: 0 and u64::MAX are seeds like any other
            prop_oneof![6 => any::<u64>(), 1 => Just(0u64), 1 => Just(1u64), 1 => Just(u64::MAX)],
            proptest::collection::vec(kind, 2..=6),
            1u16..2000,
            0u16..3000,
            proptest::collection::vec((0u8..6, 0u8..6), 0..4),
            0u8..10,
            proptest::bool::weighted(0.3),
            proptest::bool::weighted(0.25),
            proptest::bool::weighted(0.2),
        )
            .prop_map(|(seed, mods, jitter_us, latency_us, chords, ttl, emit_at_end, ndl, crash_between)| Case {
                seed,
                mods,
                jitter_us,
                latency_us,
                chords,
                ttl,
                emit_at_end,
                ndl,
                crash_between,
            })
            .boxed()
    }
    fn run(case: &Case) -> Outcome {
        match run_case(case) {
            Ok((nt, labels)) => Outcome::ok(nt, labels),
            Err(f) => Outcome::failed(f),
        }
    }
}
