//! C10 – stepping a simulation is indistinguishable from running it uninterrupted.

use crate::engine::*;
use crate::prog::{self, ExecOpts, Program, Step};
use crate::vensure;
use proptest::prelude::*;
use serde::{Deserialize, Serialize};
use std::time::Duration;

#[derive(Clone, Debug, Serialize, Deserialize)]
pub enum StepSpec {
    N(u8),
    /// until the timestamp of node idx(i), shifted by -1/0/+1 ns
    UntilNode(u16, i8),
    /// until start + k ns
    UntilStart(u32),
    /// external add at reported time + delta
    AddExternal(ExtDelta),
}

#[derive(Clone, Debug, Serialize, Deserialize)]
pub enum ExtDelta {
    Zero,
    Ns(u16),
    /// halfway to the timestamp of node idx(i) (if that lies ahead)
    HalfwayTo(u16),
    /// exactly the timestamp of node idx(i) (if that lies ahead)
    TieWith(u16),
}

#[derive(Clone, Debug, Serialize, Deserialize)]
pub struct Case {
    pub program: Program,
    pub steps: Vec<StepSpec>,
}

pub struct C10;

/// Resolves the symbolic schedule; external deltas depend on the model's reported time, so the
/// model is advanced alongside.
pub fn resolve_steps(case: &Case) -> Vec<Step> {
    let res = prog::resolve(&case.program);
    let n = res.time.len();
    let mut out: Vec<Step> = Vec::new();
    for s in &case.steps {
        let step = match s {
            StepSpec::N(k) => Step::N(*k as usize),
            StepSpec::UntilNode(i, off) => {
                if n == 0 {
                    Step::Until(case.program.start_ns as u128)
                } else {
                    let t = res.time[idx(*i, n)] as i128 + *off as i128;
                    Step::Until(t.max(0) as u128)
                }
            }
            StepSpec::UntilStart(k) => Step::Until(case.program.start_ns as u128 + *k as u128),
            StepSpec::AddExternal(d) => {
                // reported time after the steps so far, according to the model
                let m = prog::model(&case.program, 0, &[], Some(&out));
                let now = m.steps.last().map(|s| s.2).unwrap_or(case.program.start_ns as u128);
                let delta = match d {
                    ExtDelta::Zero => 0,
                    ExtDelta::Ns(k) => *k as u128,
                    ExtDelta::HalfwayTo(i) if n > 0 => res.time[idx(*i, n)].saturating_sub(now) / 2,
                    ExtDelta::TieWith(i) if n > 0 => res.time[idx(*i, n)].saturating_sub(now),
                    _ => 0,
                };
                Step::AddExternal(delta)
            }
        };
        out.push(step);
    }
    out
}

pub fn run_case(case: &Case) -> Result<(bool, Vec<&'static str>), Failure> {
    let steps = resolve_steps(case);
    let has_ext = steps.iter().any(|s| matches!(s, Step::AddExternal(_)));
    let m = prog::model(&case.program, 0, &[], Some(&steps));
    let whole = prog::execute(&case.program, &ExecOpts::default())?;
    let whole_model = prog::model(&case.program, 0, &[], None);
    let stepped = prog::execute(
        &case.program,
        &ExecOpts {
            steps: Some(steps.clone()),
            ..Default::default()
        },
    )?;
    // (c) every external add is accepted
    for (k, rep) in stepped.steps.iter().enumerate() {
        if let Some((t, msg)) = &rep.add_rejected {
            return Err(Failure::new(
                "paused-add-rejected",
                format!(
                    "step #{k}: while paused at {} ns an event for {t} ns (not earlier than the reported time) was rejected: {msg}",
                    rep.sim_time
                ),
            ));
        }
    }
    // (b) per-step reports
    for (k, (rep, (disp, rem, time))) in stepped.steps.iter().zip(m.steps.iter()).enumerate() {
        vensure!(
            rep.dispatched_total == *disp,
            "step-dispatch-count",
            "after step #{k} ({:?}) {} events were dispatched in total, expected {}",
            steps[k],
            rep.dispatched_total,
            disp
        );
        vensure!(
            rep.sim_time == *time,
            "paused-time",
            "after step #{k} ({:?}) the runtime reports {} ns, the last dispatched event had {} ns",
            steps[k],
            rep.sim_time,
            time
        );
        // the BinaryHeap backend only promises time order: with a cut inside a tie group other members of the group
        // (with other children) may have been dispatched, so the number of pending events is not determined
        vensure!(
            rep.remaining == *rem || (cfg!(vcheck_heap_backend) && m.tie_dispatches > 0),
            "step-remaining-count",
            "after step #{k} ({:?}) {} events remain, expected {}",
            steps[k],
            rep.remaining,
            rem
        );
    }
    // (a) same events, same order, same times
    if !has_ext {
        // (the BinaryHeap is deterministic for one operation sequence, and stepping no longer changes that sequence)
        prog::diff_traces("stepped run vs uninterrupted run", "stepped-differs-from-uninterrupted", &stepped.trace, &whole.trace)?;
        vensure!(
            stepped.end_time == whole.end_time && stepped.event_count == whole.event_count,
            "stepped-differs-from-uninterrupted",
            "end time / event count differ: stepped ({}, {}) uninterrupted ({}, {})",
            stepped.end_time,
            stepped.event_count,
            whole.end_time,
            whole.event_count
        );
    } else {
        // with external events there is no uninterrupted twin: compare with the model. Timestamps and
        // the multiset always; the exact order only if the uninterrupted run agrees with the model
        // on this program (otherwise tie order is C03's business).
        let mut a = stepped.trace.clone();
        let mut b = m.trace.clone();
        if whole.trace != whole_model.trace || cfg!(vcheck_heap_backend) {
            a.sort_by_key(|(id, t)| (*t, *id));
            b.sort_by_key(|(id, t)| (*t, *id));
            let mut sorted = stepped.trace.clone();
            sorted.sort_by_key(|(_, t)| *t);
            vensure!(
                sorted.iter().map(|x| x.1).eq(stepped.trace.iter().map(|x| x.1)),
                "stepped-trace-not-time-ordered",
                "stepped trace is not in timestamp order"
            );
        }
        prog::diff_traces("stepped run with external events vs model", "stepped-with-external-differs", &a, &b)?;
    }
    vensure!(stepped.remaining.is_empty(), "remaining-after-complete-run", "{} events remain", stepped.remaining.len());
    let mut labels = Vec::new();
    if m.cut_inside_tie {
        labels.push("cut-inside-tie-group");
    }
    if m.external_between {
        labels.push("external-add-between-reported-time-and-next-event");
    }
    if has_ext {
        labels.push("external-add");
    }
    if steps.iter().any(|s| matches!(s, Step::Until(_))) {
        labels.push("until-step");
    }
    if steps.iter().any(|s| matches!(s, Step::N(_))) {
        labels.push("n-step");
    }
    Ok((m.cut_inside_tie || m.external_between, labels))
}

impl Prop for C10 {
    const ID: &'static str = "C10";
    type Case = Case;

    fn rule() -> String {
        "tie-biased event programs (as C03) x step schedules vec(N(n) | Until(timestamp of an event -1/0/+1ns) | Until(start+k) | AddExternal(0 | ns | \
         halfway to / tied with a pending timestamp)) followed by dispatch_all + finish. Oracle: (a) without external adds the stepped trace equals the \
         uninterrupted run of the same program on the real runtime; (b) after every step dispatched count, remaining count and reported time equal \
         the RefSim model; (c) every external add at >= the reported time is accepted and the final trace equals the model with that insertion. \
         Non-trivial iff a step boundary falls inside a group of >= 2 equal timestamps or an external add lands strictly between the reported time \
         and the next pending timestamp."
            .into()
    }
    fn assumptions() -> Vec<String> {
        vec!["cqueue backend (default features)".into()]
    }
    fn plan(tier: Tier) -> Plan {
        Plan {
            shards: tier.pick(4, 16),
            cases_per_shard: tier.pick(2_500, 30_000),
            watchdog: Duration::from_secs(tier.pick(300, 3600)),
        }
    }
    fn strategy(tier: Tier) -> BoxedStrategy<Case> {
        let max_nodes = tier.pick(30, 100);
        let ext = prop_oneof![
            Just(ExtDelta::Zero),
            (1u16..3000).prop_map(ExtDelta::Ns),
            any::<u16>().prop_map(ExtDelta::HalfwayTo),
            any::<u16>().prop_map(ExtDelta::TieWith),
        ];
        let step = prop_oneof![
            4 => (0u8..6).prop_map(StepSpec::N),
            4 => (any::<u16>(), -1i8..=1).prop_map(|(i, o)| StepSpec::UntilNode(i, o)),
            1 => (0u32..5000).prop_map(StepSpec::UntilStart),
            3 => ext.prop_map(StepSpec::AddExternal),
        ];
        (prog::program_strategy(max_nodes, true, false), proptest::collection::vec(step, 0..10))
            .prop_map(|(program, steps)| Case { program, steps })
            .boxed()
    }
    fn run(case: &Case) -> Outcome {
        match run_case(case) {
            Ok((nt, labels)) => Outcome::ok(nt, labels),
            Err(f) => Outcome::failed(f),
        }
    }
    #[cfg(not(vcheck_heap_backend))]
    fn extra(tier: Tier, seed: u64, ev: &mut ExtraEvidence) -> Vec<Violation> {
        if tier != Tier::Thorough {
            return Vec::new();
        }
        let mut v = heap_backend_extra("C10", seed, ev);
        v.extend(fuzz_extra("C10", seed, ev));
        v
    }
}
