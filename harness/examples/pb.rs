fn main() {
    let f = std::env::args().nth(1).unwrap();
    let data = std::fs::read(&f).unwrap();
    vcore::fuzzdec::init();
    let t = std::time::Instant::now();
    for k in 0..20 {
        vcore::fuzzdec::run_prop_bytes(&data[..data.len().min(k * 200)]);
        eprintln!("iter {k} done at {:?}", t.elapsed());
    }
}
