#!/usr/bin/env python3
"""Regenerates /verif/MANIFEST.json from the table below (kept in one place so it stays valid)."""
import json, os
ROOT = os.path.dirname(os.path.dirname(os.path.abspath(__file__)))
props = [json.loads(l) for l in open(os.path.join(ROOT, "properties.jsonl"))]

# id -> (category, technique, level text, level note, design ref)
CHECKS = {
 "C01": ("exploration",
         "property-based testing (proptest, stateful op histories) against an independent pending-set model + snapshot invariants; libFuzzer campaign in the thorough tier",
         "Generated add/cancel/fetch histories over all listed queue parameterisations with adaptive, boundary-seeking timestamps are compared op by op with an independent model; bounded search, no proof of absence.",
         "Trusts the harness model (a vector of pending events) and the read-only hook snapshot; histories <= 60 (quick) / 400 (thorough) ops, times < 2^63 ns.",
         "DESIGN.md section 5, C01"),
 "C02": ("exploration",
         "property-based testing (proptest event programs on a raw Runtime) against the RefSim reference model; past-insertion attempts under catch_unwind",
         "Generated event forests with boundary-seeking delays, start times and calendar parameters; every handler's observed clock is compared with the model timestamp, every past insertion must panic. Bounded search.",
         "Trusts RefSim (~60 lines, independent of des); programs <= 40 (quick) / 150 (thorough) events; cqueue backend.",
         "DESIGN.md section 5, C02"),
 "C03": ("exploration",
         "property-based testing: queue-level histories with a tie-order oracle + metamorphic/differential runs of tie-biased event programs across queue parameterisations and ballast sizes, against RefSim",
         "The stated tie rule is executed by RefSim and compared with the real dispatch order under several (n,t) and ballast sizes; bounded search.",
         "Default feature set (cqueue) only, as the property states; alternative widths within 1/2..7x.",
         "DESIGN.md section 5, C03"),
 "C10": ("exploration",
         "property-based testing: differential (stepped vs uninterrupted run of the same program) + model-based per-step reports + generated external adds while paused",
         "Generated step schedules with cuts at, below and above event timestamps and inside tie groups; bounded search.",
         "Trusts RefSim for per-step counts and for traces with external events; <= 10 steps, <= 30/100 events.",
         "DESIGN.md section 5, C10"),
 "C11": ("exploration",
         "property-based testing: generated limit trees and Builder call sequences; oracle = independent limit evaluator over the unlimited run's trace + RefSim pending set",
         "Boundary-seeking n (total-2..total+2) and T (event timestamps +-1ns), nested And/Or; bounded search.",
         "Assumes several Builder limit calls compose with Or (anchor); trusts the harness' evaluator (10 lines).",
         "DESIGN.md section 5, C11"),
 "C15": ("exploration",
         "property-based testing: op histories x 14 payload types x page sizes; oracle = allocator/list snapshot invariants (disjoint, aligned, in-page), drop counters, byte patterns; ASan libFuzzer campaign in the thorough tier",
         "Every intermediate allocator state of generated histories is checked for overlap/misalignment/out-of-page, every payload for exactly-once drop; bounded search.",
         "Trusts the read-only hook snapshot (bounded walks); intra-page overlap is only visible through it.",
         "DESIGN.md section 5, C15"),
 "C16": ("exploration",
         "property-based testing: stateful op sequences over message slots and 36 body types against a (type tag, value) model with instance-tracked drops and an independent length function",
         "Generated set/clone/try_clone/try_cast/try_content/can_cast/drop sequences with matching, non-matching and layout-compatible types; bounded search.",
         "Values compared through Debug renderings; body types are the 36 listed in the harness (c16.rs).",
         "DESIGN.md section 5, C16"),
 "C17": ("exploration",
         "property-based testing: generated module trees + flat dotted-key YAML (wildcards, colliding names, non-ASCII) against an independent component matcher, three capture routes compared; typed read/write sequences against a sticky-type model",
         "Exact (iff) key-set comparison per module for generated configurations aimed at the generated module paths; bounded search.",
         "Flat dotted keys with scalar values only (the property's quantifier); one known finding excluded by construction (see known_findings.json).",
         "DESIGN.md section 5, C17"),
 "C07": ("exploration",
         "property-based testing: generated channel metrics and traffic (bursts, gaps around the transmission time, both tie orders) against an independent channel model running on RefSim",
         "Every offered message is accounted for (start, delivery time window, drop, order, busy flag) in generated traffic; bounded search.",
         "Ties between timers and transmission ends follow the order C03 states; tau = from_secs_f64(len*8/bitrate) within 1 ns of the rational; one known finding excluded by construction.",
         "DESIGN.md section 5, C07"),
 "C08": ("exploration",
         "property-based testing: generated gate chains (1..16 hops, connect calls in generated permutation/orientation, repeated connects, channels on hops) with sends from both ends against the generator's own description",
         "Exact delivery (once, far-end owner, time = sum of hop delays, header fields), probe order, chain enumeration mirror; bounded search.",
         "Sends are never contended (100 s apart); third-peer rejection is only checked for the panic (the property does not promise a usable chain after a caught panic).",
         "DESIGN.md section 5, C08"),
 "C12": ("exploration",
         "property-based testing: generated module trees and insertion orders against a depth-first pre-order model of the start-up log",
         "Exact equality of the at_sim_start call sequence with the model for generated trees/insertion orders/stage counts; bounded search.",
         "<= 25 modules, depth <= 4; order among at_sim_end calls not asserted.",
         "DESIGN.md section 5, C12"),
 "C14": ("exploration",
         "property-based testing: generated processing stacks and event timelines; the full hook/handler log is compared with an independent interpretation of the stack rules",
         "Exact log equality for start-up stages, messages, timer wake-ups and tear-down over generated stacks; bounded search.",
         "Injected events have distinct timestamps; sends during tear-down are not modelled.",
         "DESIGN.md section 5, C14"),
 "C19": ("exploration",
         "property-based testing: generated module graphs (chains through transit gates, multi-edges, self-loops, isolated modules) against the generator's own edge list, own BFS for reachability/distances, validity predicate for dijkstra",
         "Node/edge multisets of the global, spanned and filtered views and the derived queries compared with a reference graph; bounded search.",
         "<= 10 modules, <= 14 chains, <= 16 hops; bidirectional() asserted only where node- and gate-level readings agree.",
         "DESIGN.md section 5, C19"),
}
REASON_TODO = "check not built yet in this revision (planned, see DESIGN.md section 5)"

checks, na = [], []
for p in props:
    pid = p["id"]
    if pid in CHECKS:
        cat, tech, text, note, ref = CHECKS[pid]
        checks.append({
            "property_id": pid,
            "quick_cmd": f"./check {pid} quick",
            "thorough_cmd": f"./check {pid} thorough",
            "evidence_file": f"/verif/evidence/{pid}.json",
            "replay_cmd_template": f"./check {pid} quick --replay {{path}}",
            "engine": "vcheck",
            "level_claimed": {"category": cat, "text": text, "design_ref": ref},
            "level_note": note,
            "technique": tech,
        })
    else:
        na.append({"property_id": pid, "reason": REASON_TODO})

manifest = {
    "version": 1,
    "setup_cmd": "./setup.sh",
    "hooks": {
        "guard": "--cfg petrichorit_des_verif",
        "enable": "harness/.cargo/config.toml sets rustflags = [--cfg tokio_unstable, --cfg petrichorit_des_verif]; the harness path-depends on /repo/des, /repo/des-cqueue, /repo/des-net-utils, so every ./check rebuilds from /repo's working tree with the hooks on",
        "baseline_off_cmd": "cd /repo && cargo test --workspace --no-fail-fast --offline",
        "source_commits": ["cb0f101"],
        "add_only": True,
    },
    "engines": [
        {"name": "vcheck", "path": "harness/", "serves_properties": [c["property_id"] for c in checks],
         "kind_free_text": "proptest TestRunner driven from a binary, sharded over worker processes; shrunk failures become JSON replay files; libFuzzer targets under harness/fuzz reuse the same interpreters"},
    ],
    "checks": checks,
    "not_applicable": na,
    "notes": "Known findings and fixed defects: known_findings.json. Regression inputs: regress/<ID>/*.json (replayed by every tier).",
}
json.dump(manifest, open(os.path.join(ROOT, "MANIFEST.json"), "w"), indent=1)
print("checks:", len(checks), "not_applicable:", len(na))
