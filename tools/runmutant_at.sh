#!/bin/bash
# runmutant_at.sh <worktree> <patch> <ID>... : like runmutant.sh but against a scratch worktree (does not touch /repo)
set -u
WT=$1; P=$2; shift 2
git -C "$WT" checkout -q -- . && git -C "$WT" apply "$P" || { echo "$P does not apply"; exit 2; }
/verif/tools/check_at.sh "$WT" "$@" | sed "s#^#$(basename "$P") #"
git -C "$WT" checkout -q -- .
