#!/bin/bash
# For every seeded/<id>: git -C /repo apply patch, run the quick check of its property (plus those listed as catching
# it), git -C /repo checkout -- . ; writes seeded/RESULTS.md. Exactly the procedure of the brief.
set -u
cd /verif
OUT=${SWEEP_OUT:-seeded/RESULTS.md}
{ echo "# Seeded changes: results of the registered quick checks with the change applied to /repo"; echo
  echo "Procedure per row: \`git -C /repo apply seeded/<id>/patch.diff\`, \`./check <ID> quick\` (VERIF_SEED=0), \`git -C /repo checkout -- .\`."
  echo "exit 1 = the check reports a VIOLATION (change detected)."; echo
  echo "| seeded change | property | check | exit | first signature |"; echo "|---|---|---|---|---|"; } > $OUT
for d in ${SWEEP_ONLY:-seeded/c*/}; do
  id=$(basename $d); prop=$(python3 -c "import json;print(json.load(open('$d/meta.json'))['property'])")
  patch=/verif/$d/patch.diff; [ -f /verif/$d/patch-rebased.diff ] && patch=/verif/$d/patch-rebased.diff
  if ! git -C /repo apply --check $patch 2>/dev/null; then
    echo "| $id | $prop | $prop | - | patch applies only to an earlier commit (see meta.json: applies_to) |" >> $OUT; continue; fi
  git -C /repo apply $patch
  out=$(./check $prop quick 2>&1); code=$?
  sig=$(echo "$out" | grep -m1 "signature:" | sed 's/.*signature: //')
  echo "| $id | $prop | $prop | $code | $sig |" >> $OUT
  if [ $code -eq 0 ]; then
    # the property's own check is silent: run the other checks that meta.json lists as catching the change
    for other in $(python3 -c "import json,re;print(' '.join(sorted({m.group(0) for c in json.load(open('$d/meta.json')).get('caught_by',[]) for m in [re.match(r'C\d\d',c)] if m and m.group(0)!='$prop'})))"); do
      out=$(./check $other quick 2>&1); code=$?
      sig=$(echo "$out" | grep -m1 "signature:" | sed 's/.*signature: //')
      echo "| $id | $prop | $other | $code | $sig |" >> $OUT
    done
  fi
  git -C /repo checkout -- .
done
git -C /repo status --short | head -3
