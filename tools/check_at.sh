#!/bin/bash
# check_at.sh <path-to-a-checkout-of-the-repo> <ID>... : run the quick checks against another checkout
# (a scratch worktree with a seeded change applied) without touching /repo. For iteration only: the registered
# commands always run against /repo itself.
set -u
REPO=$(readlink -f "$1"); shift
TAG=$(echo "$REPO" | md5sum | cut -c1-8)
W=/tmp/vh-$TAG
mkdir -p "$W/harness"
rsync -a --delete --exclude target --exclude fuzz "${HSRC:-/verif/harness}/" "$W/harness/"
rsync -a --delete /verif/regress/ "$W/regress/"
cp /verif/known_findings.json "$W/"
sed -i "s#/repo/#$REPO/#g" "$W/harness/Cargo.toml"
export VERIF_ROOT="$W" CARGO_NET_OFFLINE=true
(cd "$W/harness" && cargo build --quiet --bin vcheck 2>&1 | grep -E "^error" -A 8 | head -30)
for id in "$@"; do
  out=$("$W/harness/target/debug/vcheck" "$id" "${TIER:-quick}" 2>&1); code=$?
  echo "$id exit=$code $(echo "$out" | grep -m1 -E 'signature|INCONCLUSIVE|^OK')"
done
