#!/bin/bash
# verify_seeded.sh <ID> <dir-with-deliverables> <worktree> <check ids...>
# Confirms an independently written breaking change: demo passes without / fails with the patch, the repository's
# suite passes with the patch, then runs the given quick checks against the patched worktree.
set -u
ID=$1; D=$2; WT=$3; shift 3
cd "$WT" || exit 2
git checkout -q -- . ; git clean -fdq -e target
DEST=$(grep -m1 -oE '(des|des-cqueue|des-net-utils)/tests/[A-Za-z0-9_./-]+\.rs' "$D/demo.rs" | head -1)
[ -z "$DEST" ] && DEST="des/tests/seeded_$(echo $ID | tr A-Z a-z).rs"
PKG=$(echo "$DEST" | cut -d/ -f1); NAME=$(basename "$DEST" .rs)
mkdir -p "$(dirname "$DEST")"; cp "$D/demo.rs" "$DEST"
echo "demo at $DEST"
r0=$(cargo test -p "$PKG" --test "$NAME" --offline 2>&1 | grep -E "^test result" | tail -1)
echo "without patch: $r0"
git apply "$D/patch.diff" || { echo "PATCH DOES NOT APPLY"; exit 2; }
r1=$(cargo test -p "$PKG" --test "$NAME" --offline 2>&1 | grep -E "^test result" | tail -1)
echo "with patch:    $r1"
rm -f "$DEST"
suite=$(cargo test --workspace --no-fail-fast --offline 2>&1 | grep -E "^test result" | awk '{p+=$4; f+=$6} END {print "passed",p,"failed",f}')
echo "suite with patch: $suite"
/verif/tools/check_at.sh "$WT" "$@"
