#!/bin/bash
# runmutant.sh <patch> <ID>... : apply the patch to /repo, run the quick checks, undo the patch.
# Prints one line per check: <patch> <ID> exit=<code>
set -u
P=$1; shift
git -C /repo apply "$P" || { echo "$P does not apply"; exit 2; }
for id in "$@"; do
  out=$(cd /verif && VERIF_TIER=quick ./check "$id" "${TIER:-quick}" 2>&1); code=$?
  echo "$(basename "$P") $id exit=$code $(echo "$out" | grep -m1 -E 'signature|INCONCLUSIVE' )"
done
git -C /repo checkout -- .
