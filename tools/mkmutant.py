#!/usr/bin/env python3
"""mkmutant.py <name> <file-relative-to-/repo> <old> <new>  -> writes /verif/mutants/<name>.patch (git diff), leaves /repo clean."""
import subprocess, sys
import os
name, rel, old, new = sys.argv[1:5]
REPO = os.environ.get("MUT_REPO", "/repo")  # a scratch worktree can be used instead of /repo
p = f"{REPO}/{rel}"
s = open(p).read()
assert s.count(old) == 1, f"pattern occurs {s.count(old)} times"
open(p, "w").write(s.replace(old, new))
diff = subprocess.run(["git", "-C", REPO, "diff"], capture_output=True, text=True).stdout
open(f"/verif/mutants/{name}.patch", "w").write(diff)
subprocess.run(["git", "-C", REPO, "checkout", "--", "."], check=True)
print("wrote", name)
