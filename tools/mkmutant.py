#!/usr/bin/env python3
"""mkmutant.py <name> <file-relative-to-/repo> <old> <new>  -> writes /verif/mutants/<name>.patch (git diff), leaves /repo clean."""
import subprocess, sys
name, rel, old, new = sys.argv[1:5]
p = f"/repo/{rel}"
s = open(p).read()
assert s.count(old) == 1, f"pattern occurs {s.count(old)} times"
open(p, "w").write(s.replace(old, new))
diff = subprocess.run(["git", "-C", "/repo", "diff"], capture_output=True, text=True).stdout
open(f"/verif/mutants/{name}.patch", "w").write(diff)
subprocess.run(["git", "-C", "/repo", "checkout", "--", "."], check=True)
print("wrote", name)
