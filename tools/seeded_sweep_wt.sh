#!/bin/bash
# Pre-check of the seeded changes in scratch worktrees (N lanes in parallel), without touching /repo: for iteration
# while something else is using /repo. The reported table (seeded/RESULTS.md) is produced by seeded_sweep.sh.
set -u
N=${N:-2}
OUT=${1:-/tmp/sweep_wt.md}
ls -d /verif/seeded/c*/ > /tmp/sweep_wt.all
: > $OUT
for w in $(seq 1 $N); do
  git -C /repo worktree add -q --detach /tmp/wt/sw$w HEAD 2>/dev/null
  ( i=0; while read d; do i=$((i+1)); [ $(( (i-1) % N + 1 )) -eq $w ] || continue
      id=$(basename $d); prop=$(python3 -c "import json;print(json.load(open('$d/meta.json'))['property'])")
      patch=$d/patch.diff; [ -f $d/patch-rebased.diff ] && patch=$d/patch-rebased.diff
      git -C /tmp/wt/sw$w checkout -q -- . 
      if ! git -C /tmp/wt/sw$w apply --check $patch 2>/dev/null; then echo "| $id | $prop | - | does not apply |" >> $OUT; continue; fi
      git -C /tmp/wt/sw$w apply $patch
      line=$(/verif/tools/check_at.sh /tmp/wt/sw$w $prop 2>&1 | tail -1)
      echo "| $id | $prop | $line |" >> $OUT
    done < /tmp/sweep_wt.all ) &
done
wait
for w in $(seq 1 $N); do git -C /repo worktree remove --force /tmp/wt/sw$w; done
sort -o $OUT $OUT
