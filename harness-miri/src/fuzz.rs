//! stub: the Miri run does not launch fuzz campaigns
use crate::engine::{ExtraEvidence, Violation};
pub struct Campaign<'a> {
    pub property: &'a str,
    pub target: &'a str,
    pub asan: bool,
    pub runs: u64,
    pub max_len: usize,
    pub seed: u64,
    pub seeds: Vec<Vec<u8>>,
    pub max_time: u64,
}
pub fn run(_c: &Campaign, _ev: &mut ExtraEvidence) -> Vec<Violation> {
    Vec::new()
}
pub fn random_seeds(_seed: u64, _n: usize, _len: usize) -> Vec<Vec<u8>> {
    Vec::new()
}
