//! vcheck-miri: the C15 histories (same generator, interpreter and oracle as ../harness) executed under Miri,
//! which turns out-of-bounds / use-after-free / uninitialised / misaligned accesses and double frees inside the
//! calendar queue's unsafe code into a reported error. Run by `./check C15 thorough` via `cargo +nightly miri run`.
//!
//! arguments (key=value): seed, shard (mixed into the seed), cases, max_ops, case_file (the case about to be run is
//! written there first, so that an abort by Miri leaves the failing case behind), replay (run one saved case).
#[path = "../../harness/src/engine.rs"]
pub mod engine;
#[path = "../../harness/src/cq.rs"]
pub mod cq;
#[path = "../../harness/src/c15.rs"]
pub mod c15;
pub mod fuzz;

use proptest::prelude::*;
use proptest::strategy::ValueTree;
use proptest::test_runner::{Config, RngSeed, TestRunner};

/// `key=value` program arguments (cargo-miri replays the build-time environment, so arguments are the reliable channel)
fn arg(k: &str) -> Option<String> {
    std::env::args().skip(1).find_map(|a| a.strip_prefix(&format!("{k}=")).map(str::to_string))
}
fn arg_u64(k: &str, d: u64) -> u64 {
    arg(k).and_then(|s| s.parse().ok()).unwrap_or(d)
}

fn strategy(max_ops: usize) -> BoxedStrategy<c15::Case> {
    let params = prop_oneof![
        6 => (0usize..6, 0..cq::TS.len()).prop_map(|(a, b)| cq::QParams { n: [1, 2, 3, 5, 8, 32][a], t_ns: cq::TS[b] }),
        1 => cq::params_strategy(),
    ];
    (
        params,
        0u8..c15::PAYLOADS.len() as u8,
        // small pages first: a short history then still spans several pages and reuses freed nodes
        prop_oneof![3 => 4u8..8, 1 => 0u8..4],
        proptest::collection::vec(cq::op_strategy(), 0..max_ops),
        proptest::option::weighted(0.6, any::<u16>()),
    )
        .prop_map(|(params, payload, page, ops, drop_at)| {
            let drop_at = drop_at.map(|d| ((d as usize * (ops.len() + 1)) >> 16) as u16);
            c15::Case { params, payload, page, ops, drop_at }
        })
        .boxed()
}

fn run_one(case: &c15::Case, label: &str) -> bool {
    let out = c15::run_case(case);
    if let Some(f) = &out.fail {
        println!("MIRI-FAIL {label}: {} {}", f.sig, f.msg);
        std::process::exit(1);
    }
    out.nontrivial
}

fn main() {
    if let Some(f) = arg("replay") {
        let text = std::fs::read_to_string(&f).expect("replay file");
        let v: serde_json::Value = serde_json::from_str(&text).expect("json");
        let case: c15::Case = serde_json::from_value(v.get("case").cloned().unwrap_or(v)).expect("case");
        run_one(&case, "replay");
        println!("MIRI-OK cases=1 nontrivial=0 ops=0");
        return;
    }
    let n = arg_u64("cases", 8) as usize;
    let max_ops = arg_u64("max_ops", 48) as usize;
    let seed = arg_u64("seed", 0) ^ arg_u64("shard", 0).wrapping_mul(0x9E37_79B9_7F4A_7C15);
    let case_file = arg("case_file");
    let mut runner = TestRunner::new(Config { rng_seed: RngSeed::Fixed(seed), failure_persistence: None, ..Config::default() });
    let strat = strategy(max_ops);
    let (mut nt, mut ops) = (0usize, 0usize);
    for i in 0..n {
        let case = strat.new_tree(&mut runner).expect("tree").current();
        if let Some(f) = &case_file {
            let _ = std::fs::write(f, serde_json::to_string(&serde_json::json!({"property": "C15", "case": case})).unwrap());
        }
        ops += case.ops.len();
        if run_one(&case, &format!("case {i}")) {
            nt += 1;
        }
    }
    if let Some(f) = &case_file {
        let _ = std::fs::remove_file(f);
    }
    println!("MIRI-OK cases={n} nontrivial={nt} ops={ops}");
}
